"""C03 Fermion-to-qubit encodings are faithful representations (thin structural part).

C03.a K3  dispatch of fermion_to_qubit_mapping: every advertised mapping has a branch that binds the result (no member can fall
          through to an unbound value); the mapping name is case-normalised in every comparison; the register size handed to
          each encoder is the caller's n_spinorbitals; the result is re-wrapped with a copy of the terms
C03.b K8/K9 the alpha-electron formula used for the symmetry-conserving parity factor equals (n+s)/2 (shared with C05.a)
C03.c K8  qubits substituted and pruned by the symmetry-conserving encoder agree with each other and with the state encoder (C05.b)
C03.d K8  the three implementations of the up-then-down permutation agree (C12.c); the re-ordering is applied exactly once
C03.e K12 informational: `mapping.upper in {...}` compares a method object (guard dead)
"""
from __future__ import annotations

import ast
import itertools

import sympy as sp

from ..consteval import Undecidable
from ..index import AnalysisError, Index, const_str_set, full, norm, own_nodes
from ..report import Report
from . import C05, C12
from .. import symx

MT = "tangelo/toolboxes/qubit_mappings/mapping_transform.py"
SCBK = "tangelo/toolboxes/qubit_mappings/symmetry_conserving_bravyi_kitaev.py"


def run(idx: Index, rep: Report, tier: str):
    rep.explain("C03 thin structural part: exhaustiveness and case handling of the encoder dispatch, provenance of the register size given to "
                "each encoder, the parity-sector formula and qubit bookkeeping of the symmetry-conserving encoder, agreement of the spin "
                "re-ordering implementations.")
    rep.trust("CPython ast", "sympy integer/floor simplification")
    rep.assume("linearity, canonical anticommutation relations and spectra of the encodings are algebraic facts about runtime operator values "
               "and third-party transforms (openfermion) and are not decided")
    check_dispatch(idx, rep)
    rule = "K9.alpha-beta"
    clones = [(f, st) for f, st in C05.find_alpha_clones(idx) if f.module.relpath == SCBK]
    rep.floor("scBK alpha formula", len(clones), 1)
    for f, st in clones:
        C05.decide_alpha_formula(rep, rule, f, st)
    C05.check_deleted_qubits(idx, rep)
    C12.check_reordering(idx, rep)
    check_single_reordering(idx, rep)
    check_combinatorial_basis(idx, rep)
    check_hcb_table(idx, rep, tier)
    check_combinatorial_spectrum(idx, rep, tier)
    check_hcb_chain(idx, rep, tier)
    check_register_size_reaches_encoder(idx, rep)
    check_jkmn_tree(idx, rep)


def check_jkmn_tree(idx: Index, rep: Report):
    """The ternary tree behind the JKMN encoding, folded from the repository's own _jkmn_list for heights 1, 2 and 3 (13 nodes: registers of 13 to 39 qubits
    use all three levels).  Each leaf is a path of (node, letter) pairs; the Pauli strings of two different leaves must anticommute - that is what makes them
    Majorana operators - which holds exactly when the node reached by a prefix of the path is the same for equal prefixes and different for different ones,
    level by level in the range reserved for that level."""
    from ..consteval import Raised, Undecidable
    from ..rules.circuitsem import make_folder
    rule = "K9.jkmn-tree"
    JK = "tangelo/toolboxes/qubit_mappings/jkmn.py"
    f = idx.function(f"{JK}::_jkmn_list")
    for h in (1, 2, 3):
        fo = make_folder(idx, JK)
        fo.real_arrays = True
        try:
            leaves = fo.run_function(f.node, {"h": h})
        except (Undecidable, Raised) as e:
            raise AnalysisError(f"_jkmn_list({h}) not foldable: {type(e).__name__} {e}")
        bad = []
        if len(leaves) != 3 ** h or any(len(p_) != h for p_ in leaves):
            bad.append(f"{len(leaves)} leaves with path lengths {sorted({len(p_) for p_ in leaves})}")
        else:
            by_prefix = {}
            for i_, path in enumerate(leaves):
                digits = []
                for d_, (node, letter) in enumerate(path):
                    lo, hi = (3 ** d_ - 1) // 2, (3 ** (d_ + 1) - 1) // 2
                    if not (lo <= int(node) < hi):
                        bad.append(f"leaf {i_}: node {node} at level {d_} lies outside {lo}..{hi - 1}")
                    prev = by_prefix.setdefault((d_, tuple(digits)), int(node))
                    if prev != int(node):
                        bad.append(f"leaf {i_}: prefix {digits} reaches node {node}, another leaf with the same prefix reaches {prev}")
                    digits.append(letter)
            for d_ in range(h):
                nodes = [v for (dd, _), v in by_prefix.items() if dd == d_]
                if len(set(nodes)) != len(nodes):
                    bad.append(f"level {d_}: {len(nodes)} different prefixes share {len(set(nodes))} nodes")
            commuting = 0
            for a_ in range(len(leaves)):
                for b_ in range(a_ + 1, len(leaves)):
                    da, db = {}, {}
                    for q, l in leaves[a_]:
                        da[int(q)] = da.get(int(q), "") + l
                    for q, l in leaves[b_]:
                        db[int(q)] = db.get(int(q), "") + l
                    if any(len(v) != 1 for v in list(da.values()) + list(db.values())) or sum(1 for q in set(da) & set(db) if da[q] != db[q]) % 2 == 0:
                        commuting += 1
            if commuting:
                bad.append(f"{commuting} pairs of leaves do not give anticommuting Pauli strings")
        rep.decide(not bad, rule, f, f.node, text=f"ternary tree of height {h}: {3 ** h} leaves, {(3 ** h - 1) // 2} nodes",
                   what="equal path prefixes reach the same node, different prefixes different nodes of their level, so the Pauli strings of any two leaves anticommute "
                        "(the Majorana operators of the encoding)", reason="; ".join(bad[:3]))


def check_dispatch(idx: Index, rep: Report):
    rule = "K3.mapping-dispatch"
    m = idx.module_by_relpath(MT)
    adv = const_str_set(m.assigned["available_mappings"]) if "available_mappings" in m.assigned else None
    if adv is None:
        raise AnalysisError("mapping_transform.available_mappings is not a literal set")
    f = idx.function(f"{MT}::fermion_to_qubit_mapping")
    # that every advertised name (in any letter case) reaches its encoder, binds a result and hands back a copy is decided by the fold in check_single_reordering
    from ..rules.guards import decide_refusals
    from ..consteval import Opaque
    base = {"fermion_operator": Opaque("fermion_operator"), "n_spinorbitals": 4, "n_electrons": 2, "up_then_down": False, "spin": 0}
    cases = []
    for k in sorted(adv):
        for sp_ in sorted({k.lower(), k.upper(), k.capitalize()}):
            cases.append((f"mapping '{sp_}'", dict(base, mapping=sp_), False))
    cases.append(("mapping 'XYZ'", dict(base, mapping="XYZ"), True))
    cases.append(("mapping '' (empty)", dict(base, mapping=""), True))
    decide_refusals(idx, rep, rule, f, cases, what="every advertised mapping name is accepted in any letter case, anything else is an error",
                    may_skip=("mapping.upper in",))     # a guard on the bound method object (never true); reported below for information
    # scBK needs the electron number
    decide_refusals(idx, rep, rule, f, [("scBK without n_electrons", dict(base, mapping="scbk", n_electrons=None), True),
                                         ("scBK with zero electrons (a valid sector)", dict(base, mapping="scbk", n_electrons=0), False),
                                         ("scBK with n_electrons given as an (alpha, beta) pair", dict(base, mapping="scbk", n_electrons=(1, 1)), False),
                                         ("JW with zero electrons", dict(base, mapping="jw", n_electrons=0), False),
                                         ("up_then_down without n_spinorbitals", dict(base, mapping="jw", up_then_down=True, n_spinorbitals=None), True)],
                    what="the symmetry-conserving encoding needs the electron number; re-ordering needs the register size", may_skip=("mapping.upper in",))
    # dead guard (informational)
    for n in own_nodes(f.node):
        if isinstance(n, ast.Compare) and isinstance(n.left, ast.Attribute) and n.left.attr == "upper" and isinstance(n.ops[0], ast.In):
            rep.info("K12.method-as-value", f, n, text=norm(n), reason="compares the bound method `mapping.upper` (not its result) with a set of names: the guard can never fire; "
                     "the downstream encoders still refuse a missing register size")
    # get_qubit_number agrees with the encoders
    g = idx.function(f"{MT}::get_qubit_number")
    n_ = sp.Symbol("n_spinorbitals", integer=True, positive=True)
    table = {}
    for n in ast.walk(g.node):
        if isinstance(n, ast.If) and isinstance(n.test, ast.Compare) and isinstance(n.test.comparators[0], ast.Constant):
            r = [s for s in n.body if isinstance(s, ast.Return)]
            if r:
                table[n.test.comparators[0].value] = norm(r[0].value)
    rep.decide(table.get("SCBK") == "n_spinorbitals - 2" and table.get("HCB") == "ceil(n_spinorbitals / 2)", rule, g, g.node, text=f"qubit numbers {table}",
               what="scBK uses two qubits fewer (the two pruned ones), hard-core bosons one qubit per spatial orbital", reason=f"table {table}")


def check_single_reordering(idx: Index, rep: Report):
    rule = "K8.spin-ordering"
    f = idx.function(f"{MT}::fermion_to_qubit_mapping")
    # folded with every encoder replaced by a probe that records what it was given
    from ..consteval import Raised, Undecidable
    from ..rules.circuitsem import make_folder

    class _Probe:
        _sa_model = True

        def __init__(self, tag, src, **kw):
            self.tag, self.src, self.kw = tag, src, kw
            self.terms = {("encoded-by", tag): 1.0}

    class _QOut:
        _sa_model = True

        def __init__(self, *a, **k):
            self.terms = {}

    def hook(val, types_text):
        return True if "FermionOperator" in types_text else None
    F = "F"
    last = {}

    def enc(tag):
        def _f(args, kwargs):
            src = args[0] if args else kwargs.get("fermion_operator")
            p = _Probe(tag, src, **kwargs)
            last["enc"] = p
            return p
        return _f
    ctors = {"make_up_then_down": lambda a, k: ("UTD", a[0]), "jordan_wigner": enc("JW"), "bravyi_kitaev": enc("BK"), "jkmn": enc("JKMN"),
             "symmetry_conserving_bravyi_kitaev": enc("SCBK"), "hard_core_boson_operator": enc("HCBOP"), "boson_to_qubit_mapping": enc("HCB"), "QubitOperator": lambda a, k: _QOut()}
    for mp0, utd in itertools.product(("JW", "BK", "JKMN", "SCBK", "HCB"), (False, True)):
        # the encoding name is case-insensitive (every comparison of the dispatcher upper-cases it): each spelling takes the same route
        for mp in (mp0, mp0.lower(), mp0.capitalize()):
            last.clear()
            fo = make_folder(idx, MT, ctors=ctors, isinstance_hook=hook)
            try:
                out = fo.run_function(f.node, {"fermion_operator": F, "mapping": mp, "n_spinorbitals": 4, "n_electrons": 2, "up_then_down": utd, "spin": 0})
            except Undecidable as e:
                raise AnalysisError(f"fermion_to_qubit_mapping not foldable for {mp}, up_then_down={utd}: {e}")
            except Raised as e:
                rep.violation(rule, f, f.node, text=f"{mp}, up_then_down={utd}: operator reaching the encoder",
                              what="every supported encoding name, in any letter case, is dispatched", reason=f"the dispatcher raises {e.exc_type} for `{mp}`")
                continue
            p = last.get("enc")
            src = p.src if p is not None else None
            if mp0 == "HCB":
                # one qubit per *spatial* orbital: the boson operator is extracted from the interleaved operator, the ordering request does not apply
                inner = src.src if isinstance(src, _Probe) else src
                ok = isinstance(src, _Probe) and src.tag == "HCBOP" and inner == F
                got = inner
                want_txt = "the caller's operator as it is (spatial-orbital encoding: the spin ordering does not apply, and the integral extraction assumes interleaved spin-orbitals)"
            else:
                ok = src == (("UTD", F) if utd else F) and (mp0 != "SCBK" or p.kw.get("up_then_down") == utd)
                got = src
                want_txt = "the operator re-indexed exactly once iff the all-up-then-all-down ordering is requested"
            rep.decide(ok, rule, f, f.node, text=f"{mp}, up_then_down={utd}: operator reaching the encoder",
                       what="each encoder receives " + want_txt, reason=f"the {mp} encoder receives {got!r}")
            # what comes back: a new operator holding a copy of the encoder's terms; and what the encoder was told about the register and the sector
            sizes = {"BK": {"n_qubits": 4}, "JKMN": {"n_qubits": 4}, "SCBK": {"n_spinorbitals": 4, "n_electrons": 2, "spin": 0}}.get(mp0, {})
            okr = p is not None and isinstance(out, _QOut) and out.terms == p.terms and out.terms is not p.terms and all(p.kw.get(k_) == v_ for k_, v_ in sizes.items())
            rep.decide(okr, "K3.mapping-dispatch", f, f.node, text=f"{mp}, up_then_down={utd}: result and register data",
                       what="the encoder is told the caller's register size (and sector), and its result comes back as a new operator with a copy of the terms",
                       reason=f"returns {type(out).__name__} with terms {getattr(out, 'terms', None)!r:.60} (encoder's own dictionary: {getattr(out, 'terms', None) is getattr(p, 'terms', 0)}); "
                              f"encoder keywords {getattr(p, 'kw', None)}")
    s = idx.function(f"{SCBK}::symmetry_conserving_bravyi_kitaev")
    ro = [n for n in own_nodes(s.node) if isinstance(n, ast.If) and norm(n.test) == "not up_then_down" and "reorder(fermion_operator, up_then_down_order" in full(n)]
    rep.decide(bool(ro), rule, s, ro[0] if ro else s.node, text="scBK re-orders only when the input is still interleaved",
               what="the symmetry-conserving encoder needs all-up-then-all-down and re-orders iff the caller has not already done so", reason="conditional re-ordering changed")


# ---------------------------------------------------------------------------------------------------
COMBI = "tangelo/toolboxes/qubit_mappings/combinatorial.py"
HCB = "tangelo/toolboxes/qubit_mappings/hcb.py"


def check_combinatorial_basis(idx: Index, rep: Report):
    """The combinatorial encoding writes the Hamiltonian in a basis labelled by integers.  The labelling part of `combinatorial` (everything
    before the matrix is allocated) is folded for every (orbitals, n_alpha, n_beta) up to 5 orbitals: the labels must be pairwise distinct,
    lie inside the 2^n register the function computes, and cover exactly the configurations with n_alpha alpha and n_beta beta electrons -
    otherwise two configurations share a row (wrong spectrum) or a label falls outside the matrix."""
    rule = "K9.combinatorial-basis"
    import itertools
    from ..consteval import Opaque, Raised, Undecidable
    from ..rules.circuitsem import make_folder
    f = idx.function(f"{COMBI}::combinatorial")

    def stop(st):
        return isinstance(st, ast.Assign) and any("quop_matrix" in norm(t) for t in st.targets)
    if not any(stop(st) for st in f.node.body):
        raise AnalysisError("combinatorial: allocation of the operator matrix not found")
    n_cases = 0
    for m in range(1, 6):
        for na in range(0, m + 1):
            for nb in range(0, m + 1):
                if na == 0 and nb == 0:
                    continue
                fo = make_folder(idx, COMBI)
                fo.env["chemist_ordered"] = Opaque("chemist_ordered")
                try:
                    env = fo.run_prefix(f.node, {"ferm_op": Opaque("ferm_op"), "n_modes": m, "n_electrons": (na, nb)}, stop)
                except Undecidable as e:
                    raise AnalysisError(f"combinatorial: basis construction not foldable for ({m}, ({na}, {nb})): {e}")
                except Raised as e:
                    rep.violation(rule, f, f.node, text=f"{m} orbitals, ({na}, {nb}) electrons", what="the basis labelling is defined for every electron pair", reason=f"raises {e.exc_type}")
                    continue
                bs, nq = env.get("basis_set"), env.get("n")
                if not isinstance(bs, dict) or not isinstance(nq, int):
                    raise AnalysisError("combinatorial: basis_set / n not found after folding the labelling part")
                want = {tuple(sorted([2 * a for a in ca] + [2 * b + 1 for b in cb])) for ca in itertools.combinations(range(m), na) for cb in itertools.combinations(range(m), nb)}
                labels = list(bs.values())
                bad = []
                if set(bs.keys()) != want:
                    bad.append(f"{len(set(bs.keys()) ^ want)} configuration(s) missing or spurious")
                if len(set(labels)) != len(labels):
                    bad.append(f"{len(labels) - len(set(labels))} configuration(s) share a label")
                if labels and (min(labels) < 0 or max(labels) >= 2 ** nq):
                    bad.append(f"labels reach {max(labels)} but the register has 2^{nq} = {2 ** nq} rows")
                n_cases += 1
                rep.decide(not bad, rule, f, f.node, text=f"{m} orbitals, ({na}, {nb}) electrons: {len(labels)} configurations on {nq} qubits",
                           what="every configuration of the sector gets its own row inside the register", reason="; ".join(bad))
    rep.floor("combinatorial basis labellings folded", n_cases, 80)


class _FermIn:
    """stand-in for a FermionOperator already in chemist order: the term dictionary and the constant"""
    _sa_model = True

    def __init__(self, terms):
        self.terms = dict(terms)

    @property
    def constant(self):
        return self.terms.get((), 0.0)


class _QubitOut:
    _sa_model = True

    def __init__(self, *a, **k):
        self.terms = {}


def _test_hamiltonian(n_modes: int, seed: int):
    """a Hermitian, number- and spin-conserving operator in chemist order (p^ q and p^ q r^ s with spin(p) = spin(q), spin(r) = spin(s)) with complex
    coefficients from a fixed linear-congruential sequence; spin-orbital 2i is alpha, 2i+1 beta"""
    state = [seed]

    def rnd():
        state[0] = (state[0] * 1103515245 + 12345) % (2 ** 31)
        return ((state[0] >> 8) % 2001 - 1000) / 1000.0
    N = 2 * n_modes
    terms = {(): rnd()}
    for p_ in range(N):
        terms[((p_, 1), (p_, 0))] = rnd()
        for q_ in range(p_ + 2, N, 2):
            c = complex(rnd(), rnd())
            terms[((p_, 1), (q_, 0))] = c
            terms[((q_, 1), (p_, 0))] = c.conjugate()
    quads = [(p_, q_, r_, s_) for p_ in range(N) for q_ in range(p_ % 2, N, 2) for r_ in range(N) for s_ in range(r_ % 2, N, 2)]
    for i, (p_, q_, r_, s_) in enumerate(quads):
        if i % 3 != seed % 3 or ((p_, 1), (q_, 0), (r_, 1), (s_, 0)) in terms:
            continue
        c = complex(rnd(), rnd()) / 2
        k1, k2 = ((p_, 1), (q_, 0), (r_, 1), (s_, 0)), ((s_, 1), (r_, 0), (q_, 1), (p_, 0))
        if k1 == k2:
            terms[k1] = c.real
        else:
            terms[k1], terms[k2] = c, c.conjugate()
    return terms


def check_combinatorial_spectrum(idx: Index, rep: Report, tier: str):
    """`combinatorial` folded as a whole (the matrix it allocates is a concrete numpy array of the element type the source asks for, so numpy's own casting
    applies to what is stored in it; openfermion's chemist_ordered is replaced by the identity on operators given in chemist order) on Hermitian number- and
    spin-conserving test operators with complex coefficients.  The resulting qubit operator must be Hermitian and its spectrum must be that of the
    operator on the (n_alpha, n_beta) sector, plus one copy of the constant for each unused row of the register."""
    import numpy as np
    from ..consteval import Raised, Undecidable
    from ..rules import fock, numsem
    from ..rules.circuitsem import make_folder
    rule = "K9.combinatorial-spectrum"
    f = idx.function(f"{COMBI}::combinatorial")
    cases = [(2, (1, 1), 1), (2, 2, 2), (2, (2, 1), 3), (3, (1, 1), 4), (2, (1, 0), 5), (3, (2, 1), 6)]     # two like-spin electrons: the hopping signs matter
    if tier == "thorough":
        cases += [(3, (1, 2), 7), (3, 2, 8), (3, (2, 2), 9)]
    n = 0
    for n_modes, n_el, seed in cases:
        terms = _test_hamiltonian(n_modes, seed)
        fo = make_folder(idx, COMBI, ctors={"chemist_ordered": lambda a, k: a[0], "QubitOperator": lambda a, k: _QubitOut()})
        label = f"{n_modes} orbitals, electrons {n_el}, {len(terms)} terms with complex coefficients"
        try:
            q = fo.run_function(f.node, {"ferm_op": _FermIn(terms), "n_modes": n_modes, "n_electrons": n_el})
        except Undecidable as e:
            raise AnalysisError(f"combinatorial not foldable for {label}: {e}")
        except Raised as e:
            rep.violation(rule, f, f.node, text=label, what="the encoding is defined for every Hermitian number- and spin-conserving operator", reason=f"raises {e.exc_type}")
            n += 1
            continue
        if not isinstance(q, _QubitOut):
            raise AnalysisError(f"combinatorial folded to {q!r}")
        N = 2 * n_modes
        na, nb = n_el if isinstance(n_el, tuple) else (n_el // 2, n_el // 2)
        H = np.zeros((2 ** N, 2 ** N), dtype=complex)
        for t, c in terms.items():
            H = H + complex(c) * fock.term_matrix(t, N).astype(complex)
        rows = [s_ for s_ in range(2 ** N) if sum((s_ >> (N - 1 - j)) & 1 for j in range(0, N, 2)) == na and sum((s_ >> (N - 1 - j)) & 1 for j in range(1, N, 2)) == nb]
        sector = H[np.ix_(rows, rows)]
        nq = max([i for t in q.terms for i, _ in t] + [0]) + 1
        Q = np.zeros((2 ** nq, 2 ** nq), dtype=complex)
        for t, c in q.terms.items():
            Q = Q + complex(c) * numsem._pauli(dict(t), nq)
        herm = float(np.max(np.abs(Q - Q.conj().T)))
        want = sorted(list(np.linalg.eigvalsh(sector)) + [float(np.real(terms[()]))] * (2 ** nq - len(rows))) if 2 ** nq >= len(rows) else None
        got = sorted(np.real(np.linalg.eigvals(Q)))
        dev = float(np.max(np.abs(np.array(got) - np.array(want)))) if want is not None and len(want) == len(got) else float("inf")
        n += 1
        rep.decide(herm < 1e-5 and dev < 1e-4, rule, f, f.node, text=f"{label}: {len(q.terms)} Pauli terms on {nq} qubits",
                   what="the qubit operator is Hermitian and has the spectrum of the fermionic operator on the sector with the given alpha and beta electron numbers "
                        "(unused rows of the register carry the constant)",
                   reason=f"spectrum deviates by {dev:.3g}, anti-Hermitian part {herm:.3g}")
    rep.floor("combinatorial encodings folded as a whole", n, 5)


class _SymTensor:
    """stand-in for a numpy tensor of coefficients: element [i, j, ...] is the symbol name_ij.. times a scalar factor"""
    _sa_model = True

    def __init__(self, name, rank, dim, factor=1):
        self.name, self.rank, self.dim, self.factor = name, rank, dim, factor
        self.shape = (dim,) * rank

    def __getitem__(self, k):
        k = k if isinstance(k, tuple) else (k,)
        if len(k) != self.rank or not all(isinstance(x, int) and 0 <= x < self.dim for x in k):
            raise Undecidable(f"tensor index {k}")
        return self.factor * sp.Symbol(f"{self.name}_{''.join(map(str, k))}")

    def __mul__(self, c):
        return _SymTensor(self.name, self.rank, self.dim, self.factor * c)
    __rmul__ = __imul__ = __mul__


class _BosOp:
    """stand-in for openfermion's BosonOperator: terms keyed by ((mode, 1|0), ...) parsed from 'i^ j' strings"""
    _sa_model = True

    def __init__(self, term=None, coefficient=1):
        self.terms = {}
        if term is not None:
            if isinstance(term, str):
                key = tuple((int(t.rstrip("^")), 1 if t.endswith("^") else 0) for t in term.split())
            else:
                key = tuple(term)
            self.terms[key] = coefficient

    def __add__(self, o):
        r = _BosOp()
        r.terms = dict(self.terms)
        for k, v in o.terms.items():
            r.terms[k] = r.terms.get(k, 0) + v
        return r
    __iadd__ = __add__


def check_hcb_table(idx: Index, rep: Report, tier: str = "quick"):
    """hard_core_boson_operator, term by term.  For every number- and spin-conserving ladder-operator product t of the two shapes the coefficient extraction
    reads (a+ a, a+ a+ a a) on two spatial orbitals (three in the thorough tier), the Hermitian operator t + t^ is encoded by folding the library's own
    chain (get_coeffs, hard_core_boson_operator), and the boson operator's matrix is compared with the exact matrix of t + t^ between the paired
    (seniority-zero) determinants, built from the checker's own ladder-operator matrices.  By linearity this is the whole table of the encoding: pair
    energy, pair hopping, pair-pair coupling, and zero for everything that breaks a pair - with no symmetry assumed beyond hermiticity."""
    rule = "K9.hcb-table"
    import numpy as np
    from ..consteval import Raised, Undecidable
    f = idx.function(f"{HCB}::hard_core_boson_operator")
    _validate_hcb_reference()
    sizes = (2, 3) if tier == "thorough" else (2,)
    for n_mos in sizes:
        N = 2 * n_mos
        shapes = [((p_, 1), (q_, 0)) for p_, q_ in itertools.product(range(N), repeat=2) if p_ % 2 == q_ % 2]
        shapes += [((p_, 1), (q_, 1), (r_, 0), (s_, 0)) for p_, q_, r_, s_ in itertools.product(range(N), repeat=4)
                   if p_ != q_ and r_ != s_ and p_ % 2 + q_ % 2 == r_ % 2 + s_ % 2]
        if n_mos == 3:      # the two-orbital terms are done above: keep the ones that touch all three orbitals
            shapes = [t for t in shapes if len({i // 2 for i, _ in t}) == 3]
        bad, done = [], 0
        for t in shapes:
            adj = tuple((i, 1 - d) for i, d in reversed(t))
            terms = {t: 1.0}
            terms[adj] = terms.get(adj, 0.) + 1.0
            try:
                bos = hcb_encode(idx, terms)
            except Undecidable as e:
                raise AnalysisError(f"hard_core_boson_operator not foldable on {t}: {e}")
            except Raised as e:
                bad.append((t, f"raises {e.exc_type}"))
                continue
            done += 1
            d = float(np.max(np.abs(boson_matrix(bos, n_mos) - paired_block(terms, n_mos))))
            if d > 1e-9:
                bad.append((t, f"largest deviation of a matrix element {d:.3g}"))
        rep.floor(f"hard-core-boson table entries folded on {n_mos} orbitals", done + len(bad), 80 if n_mos == 2 else 100)
        rep.decide(not bad, rule, f, f.node, text=f"paired-space image of every number- and spin-conserving term on {n_mos} orbitals ({len(shapes)} Hermitian operators t + t^)",
                   what="the boson operator is the fermionic operator restricted to the paired space for any Hermitian number- and spin-conserving input "
                        "(pair energy, pair hopping, pair-pair coupling; zero for whatever breaks a pair), without assuming real-orbital or index-order symmetry",
                   reason=f"{len(bad)} operators deviate; first: t = {bad[0][0] if bad else ''}: {bad[0][1] if bad else ''}")


def _validate_hcb_reference():
    """the reference table above, re-derived on every run with exact integer Fock matrices (two orbitals, integer h and T with hermiticity and
    particle-exchange symmetry only): matrix elements of the fermionic Hamiltonian between paired states against the table"""
    import itertools
    import random
    import numpy as np
    from ..rules import fock
    n = 4
    for seed in (3, 11, 29):
        rnd = random.Random(seed)
        h = {}
        for i in range(2):
            for j in range(i, 2):
                h[i, j] = h[j, i] = rnd.randint(-5, 5)
        raw = {k: rnd.randint(-5, 5) for k in itertools.product(range(2), repeat=4)}
        T = {(p, q, r, s): raw[p, q, r, s] + raw[s, r, q, p] + raw[q, p, s, r] + raw[r, s, p, q] for (p, q, r, s) in raw}
        H = np.zeros((16, 16), dtype=object)
        for p in range(2):
            for q in range(2):
                for sg in range(2):
                    H = H + h[p, q] * fock.term_matrix(((2 * p + sg, 1), (2 * q + sg, 0)), n)
        for (p, q, r, s), v in T.items():
            for sg in range(2):
                for tu in range(2):
                    H = H + v * fock.term_matrix(((2 * p + sg, 1), (2 * q + tu, 1), (2 * r + tu, 0), (2 * s + sg, 0)), n)
        vac = np.zeros(16, dtype=object)
        vac[0] = 1
        pair = lambda i: fock.term_matrix(((2 * i, 1), (2 * i + 1, 1)), n)
        st = {(0,): pair(0).dot(vac), (1,): pair(1).dot(vac), (0, 1): pair(0).dot(pair(1).dot(vac))}
        me = lambda a, b: st[a].dot(H.dot(st[b])) / st[a].dot(st[a])
        diag = lambda i: 2 * h[i, i] + 2 * T[i, i, i, i]
        nn = lambda i, j: 4 * T[i, j, j, i] - 2 * T[i, j, i, j]
        ok = me((0,), (0,)) == diag(0) and me((1,), (1,)) == diag(1) and me((0,), (1,)) == 2 * T[0, 0, 1, 1] and me((1,), (0,)) == 2 * T[1, 1, 0, 0] and \
            me((0, 1), (0, 1)) == diag(0) + diag(1) + nn(0, 1) + nn(1, 0)
        if not ok:
            raise AnalysisError("hard-core-boson reference table disagrees with the exact paired-space matrix elements (checker defect)")


# ---------------------------------------------------------------------------------------------------
def check_register_size_reaches_encoder(idx: Index, rep: Report):
    """An operator that does not touch the highest orbital must still be encoded on the full register: the register size the caller gives has to
    reach the place where the encoding is generated.  For each encoder wrapper that takes `n_qubits`, every call that builds the encoding
    (the third-party transform, the dictionary of Majorana images) receives that parameter - checked as dataflow from the parameter to the
    call's arguments."""
    rule = "K7.register-size"
    # (file, encoder, its register-size parameter, calls that size a register: openfermion's transforms and re-ordering infer the size from the highest mode the
    #  operator happens to touch unless they are told)
    wrappers = [("tangelo/toolboxes/qubit_mappings/bravyi_kitaev.py", "bravyi_kitaev", "n_qubits", ("openfermion_bravyi_kitaev",)),
                ("tangelo/toolboxes/qubit_mappings/jkmn.py", "jkmn", "n_qubits", ("_jkmn_dict",)),
                (SCBK, "symmetry_conserving_bravyi_kitaev", "n_spinorbitals", ("reorder", "bravyi_kitaev_tree"))]
    for rel, fname, size, builders in wrappers:
        f = idx.function(f"{rel}::{fname}")
        if size not in f.params:
            raise AnalysisError(f"{fname}: parameter {size} not found")
        calls = [c for c in ast.walk(f.node) if isinstance(c, ast.Call) and norm(c.func) in builders]
        rep.floor(f"{fname}: calls generating the encoding", len(calls), len(builders))
        for c in calls:
            passed = [norm(a) for a in c.args] + [norm(k.value) for k in c.keywords]
            ok = any(p == size for p in passed)
            rep.decide(ok, rule, f, c, text=f"{fname}: {norm(c)[:70]}",
                       what="the caller's register size reaches the call that generates the encoding, so operators that stop below the highest orbital are encoded on the full register",
                       reason=f"`{norm(c)[:70]}` does not receive {size}: the register is sized from the highest orbital the operator happens to touch, so ladder operators and "
                              f"products are encoded on different registers and the encoding is no longer one representation")


# ---------------------------------------------------------------------------------------------------
# the whole hard-core-boson chain, folded: FermionOperator.get_coeffs -> spatial_from_spinorb -> hard_core_boson_operator
OPSF = "tangelo/toolboxes/operators/operators.py"


def hcb_encode(idx: Index, terms: dict):
    """fold hard_core_boson_operator on a fermionic operator given by its term dictionary (order-aware stand-in carrying the repository's own get_coeffs);
    returns the boson operator stand-in"""
    from ..consteval import FuncVal, Raised, Undecidable
    from ..rules.circuitsem import make_folder
    from ..rules.ofmodel import OrdFermionOp
    gc = idx.function(f"{OPSF}::FermionOperator.get_coeffs")

    def folder(rel):
        fo = make_folder(idx, rel, ctors={"BosonOperator": lambda a, k: _BosOp(*a, **k), "of.count_qubits": lambda a, k: max([i for t in a[0].terms for i, _ in t] + [-1]) + 1,
                                          "count_qubits": lambda a, k: max([i for t in a[0].terms for i, _ in t] + [-1]) + 1})
        fo.real_arrays = True
        return fo

    class _F(OrdFermionOp):
        def get_coeffs(self, coeff_threshold=1e-8, spatial=False):
            return folder(OPSF).call_funcval(FuncVal(gc.node, bound_self=self, home=OPSF), [], {"coeff_threshold": coeff_threshold, "spatial": spatial})
    op = _F()
    op.terms = dict(terms)
    f = idx.function(f"{HCB}::hard_core_boson_operator")
    return folder(HCB).run_function(f.node, {"ferm_op": op})


def paired_block(terms: dict, n_mos: int):
    """exact matrix of the fermionic operator between the seniority-zero determinants (every spatial orbital empty or doubly occupied); row / column index:
    pair occupation read as a binary number, orbital 0 most significant"""
    import numpy as np
    from ..rules import fock
    N = 2 * n_mos
    M = np.zeros((2 ** N, 2 ** N), dtype=complex)
    for t, c in terms.items():
        M = M + complex(c) * fock.term_matrix(t, N).astype(complex)
    rows = []
    for s_ in range(2 ** n_mos):
        occ = [(s_ >> (n_mos - 1 - p_)) & 1 for p_ in range(n_mos)]
        rows.append(sum((1 << (N - 1 - 2 * p_)) | (1 << (N - 2 - 2 * p_)) for p_ in range(n_mos) if occ[p_]))
    return M[np.ix_(rows, rows)]


def boson_matrix(bos, n_mos: int):
    """matrix of a hard-core boson operator stand-in on n_mos two-level modes (b+ = |1><0|), mode 0 most significant"""
    import numpy as np
    up, dn, one = np.array([[0, 0], [1, 0]], dtype=complex), np.array([[0, 1], [0, 0]], dtype=complex), np.eye(2, dtype=complex)
    M = np.zeros((2 ** n_mos, 2 ** n_mos), dtype=complex)
    for term, c in bos.terms.items():
        m = np.eye(2 ** n_mos, dtype=complex)
        for mode, dag in term:
            f = np.array([[1]], dtype=complex)
            for q in range(n_mos):
                f = np.kron(f, (up if dag else dn) if q == mode else one)
            m = m @ f
        M = M + complex(c) * m
    return M


def _restricted_hamiltonian(n_mos: int, seed: int) -> dict:
    """a spin-restricted molecular Hamiltonian the way SecondQuantizedMolecule produces it: every a+_P a+_Q a_R a_S with 1/2 g (not normal ordered), real
    integrals with the eight-fold symmetry, from a fixed linear-congruential sequence"""
    state = [seed]

    def rnd():
        state[0] = (state[0] * 1103515245 + 12345) % (2 ** 31)
        return ((state[0] >> 8) % 2001 - 1000) / 1000.0
    h = [[0.] * n_mos for _ in range(n_mos)]
    for p_ in range(n_mos):
        for q_ in range(p_, n_mos):
            h[p_][q_] = h[q_][p_] = rnd()
    g = {}
    for p_, q_, r_, s_ in itertools.product(range(n_mos), repeat=4):      # chemist (pq|rs) with 8-fold symmetry
        key = min([(p_, q_, r_, s_), (q_, p_, r_, s_), (p_, q_, s_, r_), (q_, p_, s_, r_), (r_, s_, p_, q_), (s_, r_, p_, q_), (r_, s_, q_, p_), (s_, r_, q_, p_)])
        if key not in g:
            g[key] = rnd()
        g[(p_, q_, r_, s_)] = g[key]
    terms = {(): rnd()}
    for p_, q_ in itertools.product(range(n_mos), repeat=2):
        for sg in (0, 1):
            terms[((2 * p_ + sg, 1), (2 * q_ + sg, 0))] = h[p_][q_]
    # openfermion convention: two_body[p, q, r, s] a+_p a+_q a_r a_s with two_body[p,q,r,s] = (ps|qr) in chemist notation
    for p_, q_, r_, s_ in itertools.product(range(n_mos), repeat=4):
        for sg, tu in itertools.product((0, 1), repeat=2):
            key = ((2 * p_ + sg, 1), (2 * q_ + tu, 1), (2 * r_ + tu, 0), (2 * s_ + sg, 0))
            terms[key] = terms.get(key, 0.) + 0.5 * g[(p_, s_, q_, r_)]
    return terms


def check_hcb_chain(idx: Index, rep: Report, tier: str):
    """hard-core-boson encoding as the library performs it (coefficient extraction, spatial reduction, boson operator), folded on spin-restricted molecular
    Hamiltonians: the boson operator's matrix equals the exact matrix of the Hamiltonian between the paired determinants."""
    import numpy as np
    from ..consteval import Raised, Undecidable
    rule = "K9.hcb-chain"
    f = idx.function(f"{HCB}::hard_core_boson_operator")
    n = 0
    for n_mos, seed in ((2, 11), (2, 12), (3, 13)) + (((3, 14), (3, 15)) if tier == "thorough" else ()):
        terms = _restricted_hamiltonian(n_mos, seed)
        try:
            bos = hcb_encode(idx, terms)
        except Undecidable as e:
            raise AnalysisError(f"hard-core-boson chain not foldable: {e}")
        except Raised as e:
            rep.violation(rule, f, f.node, text=f"{n_mos} orbitals, restricted Hamiltonian #{seed}", what="the encoding is defined for every spin-restricted Hamiltonian", reason=f"raises {e.exc_type}")
            continue
        d = float(np.max(np.abs(boson_matrix(bos, n_mos) - paired_block(terms, n_mos))))
        n += 1
        rep.decide(d < 1e-9, rule, f, f.node, text=f"{n_mos} orbitals, spin-restricted Hamiltonian #{seed} ({len(terms)} terms): boson operator vs the paired block",
                   what="the hard-core-boson operator is the fermionic Hamiltonian restricted to the determinants with every orbital empty or doubly occupied",
                   reason=f"largest deviation of a matrix element {d:.3g}")
    rep.floor("hard-core-boson chains folded", n, 3)
    # the same operator written in normal order (creation operators first, decreasing indices) - an operator, not a spelling, is what is encoded
    from ..rules import ofmodel as om
    bad = []
    for n_mos, seed in ((2, 11), (3, 13)):
        terms = _restricted_hamiltonian(n_mos, seed)
        op = om.OrdFermionOp()
        op.terms = dict(terms)
        no_terms = dict(om.normal_ordered(op).terms)
        try:
            bos = hcb_encode(idx, no_terms)
        except Undecidable as e:
            raise AnalysisError(f"hard-core-boson chain not foldable on a normal-ordered operator: {e}")
        except Raised as e:
            bad.append(f"{n_mos} orbitals: raises {e.exc_type}")
            continue
        d = float(np.max(np.abs(boson_matrix(bos, n_mos) - paired_block(terms, n_mos))))
        if d >= 1e-9:
            bad.append(f"{n_mos} orbitals: largest deviation of a matrix element {d:.3g}")
    rep.decide(not bad, rule, f, f.node, text="the same spin-restricted Hamiltonians, written in normal order",
               what="the hard-core-boson operator depends on the fermionic operator, not on the order in which its ladder operators are written",
               reason="; ".join(bad) + " (the coefficient extraction only reads the a+ a and a+ a+ a a patterns at the index positions an un-reordered molecular Hamiltonian uses)")
