"""C16 Operator arithmetic returns correct values and never mutates operands (structural part).

C16.a K1  for every operator class, the non-in-place dunders (+, -, *, /, neg, pow, ==, reflected forms) write to
          neither operand; in-place dunders do not write to the *other* operand.  Decided per concrete class with
          MRO-based resolution, inherited openfermion bodies parsed from site-packages, operator syntax on objects
          of known class dispatched to the class' dunders.
C16.b K6  attributes that only a subclass defines (mapping, up_then_down, n_spinorbitals...) are read from the other
          operand only under an isinstance / hasattr / getattr guard (mixing with a plain operator must not fail)
C16.c K9  MultiformOperator tables: letter<->integer<->(x,z) rows, 2*x+z encoding / >>1, %2 decoding, XOR product label
          and the 4x4 phase table against the Pauli algebra; commutation test uses the x/z-swapped form and reduces
          with "no term anticommutes"
C16.d K11 numpy attributes used by the operator modules exist in the installed numpy
"""
from __future__ import annotations

import ast
from typing import Dict, List, Optional, Set, Tuple

import sympy as sp

from ..alias import Analyzer, is_P
from ..consteval import Opaque
from ..index import AnalysisError, ClassInfo, FunctionInfo, Index, norm, own_nodes
from ..report import Report
from ..rules.purity import check_purity
from ..rules.npapi import check_numpy_api
from .. import symx

OPS = "tangelo/toolboxes/operators/operators.py"
MULTI = "tangelo/toolboxes/operators/multiformoperator.py"

PURE_DUNDERS = ["__add__", "__radd__", "__sub__", "__rsub__", "__mul__", "__rmul__", "__truediv__", "__div__",
                "__neg__", "__pow__", "__eq__", "__ne__"]
INPLACE_DUNDERS = ["__iadd__", "__isub__", "__imul__", "__itruediv__"]
OPERATOR_CLASSES = [(OPS, "FermionOperator"), (OPS, "QubitOperator"), (OPS, "QubitHamiltonian"), (OPS, "BosonOperator"),
                    (MULTI, "MultiformOperator")]


def run(idx: Index, rep: Report, tier: str):
    rep.explain("C16 structural part: may-mutate analysis of every arithmetic dunder of every operator class, resolved through "
                "the class' MRO (inherited openfermion SymbolicOperator bodies are parsed, not imported); guard analysis for "
                "subclass-only attributes read from the other operand; MultiformOperator encoding / phase tables checked "
                "against the Pauli algebra exactly; numpy API existence.")
    rep.trust("CPython ast", "sa.alias library summary tables", "sympy exact matrix algebra", "installed numpy's own stub file")
    rep.assume("algebraic correctness of openfermion's term arithmetic itself is not decided")
    an = Analyzer(idx, max_depth=6 if tier == "quick" else 10)
    check_dunders(idx, rep, an, tier)
    check_subclass_attr_guards(idx, rep)
    check_multiform_tables(idx, rep)
    check_multiform_semantics(idx, rep, tier)
    check_scalar_arithmetic(idx, rep)
    check_hamiltonian_plain_operand(idx, rep)
    check_index_ranges(idx, rep)
    check_resync_after_compress(idx, rep)
    check_plain_operand_guard(idx, rep)
    check_numpy_api(idx, rep, [OPS, MULTI], rule="K11.numpy-api")
    rep.stats.update({"alias_" + k: v for k, v in an.stats.items()})


def check_dunders(idx: Index, rep: Report, an: Analyzer, tier: str):
    n = 0
    for rel, cname in OPERATOR_CLASSES:
        ci = idx.cls(f"{rel}::{cname}")
        for d in PURE_DUNDERS + INPLACE_DUNDERS:
            m = idx.find_method(ci, d)
            if m is None:
                continue
            params = m.positional
            if not params:
                continue
            others = params[1:2]
            prot = ([params[0]] if d in PURE_DUNDERS else []) + others
            if not prot:
                continue
            # the other operand is analysed as an instance of the same class (worst case for aliasing:
            # reflected / negated forms dispatch back into this class' own dunders)
            ptypes = {o: ci.fq for o in others}
            _purity_typed(idx, rep, an, m, prot, ci, ptypes, f"{cname}.{d}",
                          "binary arithmetic leaves both operands unchanged" if d in PURE_DUNDERS
                          else "in-place arithmetic leaves the right operand unchanged")
            n += 1
    rep.floor("operator dunders analysed", n, 40)


def _purity_typed(idx, rep, an, m: FunctionInfo, prot, ci: ClassInfo, ptypes, label, what):
    rule = "K1.operands"
    fa = an.analyze(m, ci, param_types=ptypes)
    where = (m.module.relpath if not m.module.external else "site-packages/" + m.module.name.replace(".", "/") + ".py", label)
    # a non-in-place operation returns a new object, never one of its operands (an aliased result lets a later
    # in-place step on the result rewrite the operand)
    dname = label.split(".")[-1]
    if dname in PURE_DUNDERS and dname not in ("__eq__", "__ne__"):
        aliased = sorted({o[1] for o in fa.returned if is_P(o) and o[2] == () and o[1] in prot})
        if aliased:
            rets = [n for n in ast.walk(m.node) if isinstance(n, ast.Return)]
            rep.violation("K1.fresh-result", where, rets[0] if rets else m.node, text=f"{label} may return its operand {', '.join(aliased)}",
                          what="binary arithmetic returns a new object (the result never aliases an operand)",
                          reason=f"{label} can return the very object passed as {', '.join(aliased)}: `r = ...; r += x` then rewrites the operand (defined in {m.qualname})")
        else:
            rep.ok("K1.fresh-result", where, m.node, text=f"{label} returns a new object", what="binary arithmetic returns a new object (the result never aliases an operand)")
    for p in prot:
        evs = [e for e in fa.events if is_P(e.obj) and e.obj[1] == p]
        seen = {}
        for e in evs:
            k = (getattr(e.node, "lineno", 0), getattr(e.node, "col_offset", 0))
            if k not in seen or len(e.obj[2]) < len(seen[k].obj[2]):
                seen[k] = e
        if not seen:
            rep.ok(rule, where, m.node, text=f"{label}({p})", what=what)
        for e in seen.values():
            from ..rules.purity import _stmt_of
            st = _stmt_of(m, e.node)
            rep.violation(rule, where, e.node, text=f"{label}: {p}: {norm(st)}", what=what,
                          reason=f"{e.describe()} (defined in {m.qualname})")


# ---------------------------------------------------------------------------------------------------
def _own_attrs(idx: Index, ci: ClassInfo) -> Set[str]:
    """attributes assigned through self in this class' __init__ that no base class assigns"""
    mine = set()
    init = ci.methods.get("__init__")
    if init is None:
        return mine
    for n in ast.walk(init.node):
        if isinstance(n, ast.Attribute) and isinstance(n.ctx, ast.Store) and isinstance(n.value, ast.Name) and n.value.id == "self":
            mine.add(n.attr)
    base_attrs = set()
    for b in idx.mro(ci)[1:]:
        base_attrs |= {n.attr for f in b.methods.values() for n in ast.walk(f.node)
                       if isinstance(n, ast.Attribute) and isinstance(n.ctx, ast.Store) and isinstance(n.value, ast.Name) and n.value.id == "self"}
    return mine - base_attrs


def _guarded_by_isinstance(m: FunctionInfo, node: ast.AST, var: str, cname: str) -> bool:
    """node lies in the body of `if isinstance(var, <cname or subclass>)` (or after hasattr(var, attr))"""
    def contains(stmts, node):
        return any(node is x for s in stmts for x in ast.walk(s))

    for n in ast.walk(m.node):
        if isinstance(n, ast.If):
            t = n.test
            tests = t.values if isinstance(t, ast.BoolOp) and isinstance(t.op, ast.And) else [t]
            for tt in tests:
                if isinstance(tt, ast.Call) and isinstance(tt.func, ast.Name) and tt.func.id in ("isinstance", "hasattr") and tt.args and \
                        isinstance(tt.args[0], ast.Name) and tt.args[0].id == var:
                    if tt.func.id == "isinstance" and cname in norm(tt.args[1]) and not norm(tt.args[1]).startswith("of."):
                        if contains(n.body, node):
                            return True
                        # later conjuncts of the same test are guarded too
                        if isinstance(t, ast.BoolOp) and any(node is x for v in t.values[t.values.index(tt) + 1:] for x in ast.walk(v)):
                            return True
                    if tt.func.id == "hasattr":
                        if contains(n.body, node):
                            return True
                        if isinstance(t, ast.BoolOp) and any(node is x for v in t.values[t.values.index(tt) + 1:] for x in ast.walk(v)):
                            return True
    return False


def check_subclass_attr_guards(idx: Index, rep: Report):
    rule = "K6.attr-guard"
    n = 0
    for rel, cname in OPERATOR_CLASSES:
        if cname == "MultiformOperator":
            continue      # documented to combine with MultiformOperators only
        ci = idx.cls(f"{rel}::{cname}")
        own = _own_attrs(idx, ci)
        if not own:
            continue
        for d, m in sorted(ci.methods.items()):
            if not (d.startswith("__") and d.endswith("__")) or d == "__init__":
                continue
            params = m.positional
            if len(params) < 2:
                continue
            other = params[1]
            for node in own_nodes(m.node):
                if isinstance(node, ast.Attribute) and isinstance(node.value, ast.Name) and node.value.id == other and node.attr in own \
                        and isinstance(node.ctx, ast.Load):
                    n += 1
                    ok = _guarded_by_isinstance(m, node, other, cname)
                    rep.decide(ok, rule, m, node, text=f"{cname}.{d}: {other}.{node.attr}",
                               what=f"'{node.attr}' exists only on {cname}: it is read from the other operand only after checking its class",
                               reason=f"{other}.{node.attr} is read unguarded: combining a {cname} with a plain operator raises AttributeError")
    rep.floor("subclass-only attribute reads", n, 8)


# ---------------------------------------------------------------------------------------------------
def check_multiform_tables(idx: Index, rep: Report):
    rule = "K9.pauli-tables"
    mm = idx.module_by_relpath(MULTI)
    # -- ConvertPauli rows
    cp = idx.function(f"{MULTI}::ConvertPauli.__init__")
    table = None
    for n in own_nodes(cp.node):
        if isinstance(n, ast.Assign) and isinstance(n.value, ast.List) and len(n.value.elts) == 4 and all(isinstance(e, ast.List) for e in n.value.elts):
            table = n
    if table is None:
        raise AnalysisError("ConvertPauli: translation table not found")
    rows = [ast.literal_eval(e) for e in table.value.elts]
    want = {"I": (0, 0), "Z": (0, 1), "X": (1, 0), "Y": (1, 1)}
    enc = {}
    for letter, integer, tup in rows:
        ok = want.get(letter) == tuple(tup) and integer == 2 * tup[0] + tup[1]
        enc[letter] = integer
        rep.decide(ok, rule, cp, table, text=f"row {letter} <-> {integer} <-> {tuple(tup)}",
                   what="letter, integer and (x|z) stabiliser code of each Pauli agree (integer = 2x + z; X=(1,0), Z=(0,1), Y=(1,1))",
                   reason=f"row {letter}, {integer}, {tup} is inconsistent")
    rep.decide(set(enc) == set(want), rule, cp, table, text="ConvertPauli covers I, X, Y, Z", what="all four Paulis are listed", reason=f"letters {sorted(enc)}")
    # -- integer_to_binary: x = int >> 1, z = int mod 2, concatenated x then z
    itb = idx.function(f"{MULTI}::integer_to_binary")
    src = {n.targets[0].id: norm(n.value) for n in own_nodes(itb.node) if isinstance(n, ast.Assign) and isinstance(n.targets[0], ast.Name)}
    okx = any(">> 1" in v for k, v in src.items() if "x" in k)
    okz = any(("% 2" in v or "mod(" in v and ", 2)" in v or "& 1" in v) for k, v in src.items() if "z" in k)
    conc = [n for n in own_nodes(itb.node) if isinstance(n, ast.Call) and norm(n.func) in ("np.concatenate", "np.hstack")]
    order_ok = bool(conc) and isinstance(conc[0].args[0], ast.Tuple) and [norm(e) for e in conc[0].args[0].elts] == ["binary_x", "binary_z"]
    rep.decide(okx and okz and order_ok, rule, itb, itb.node, text="binary = (int >> 1 | int mod 2)",
               what="integer code is decoded as x = int >> 1, z = int mod 2 and stored as (x-block | z-block)",
               reason=f"decode expressions {src}, concatenation order {[norm(e) for e in conc[0].args[0].elts] if conc and isinstance(conc[0].args[0], ast.Tuple) else '?'}")
    # -- from_binaryop: int = 2 * x-block + z-block
    fb = idx.function(f"{MULTI}::MultiformOperator.from_binaryop")
    ints = [n for n in own_nodes(fb.node) if isinstance(n, ast.Assign) and isinstance(n.targets[0], ast.Name) and n.targets[0].id == "int_op"]
    ok = False
    if ints:
        t = norm(ints[0].value).replace(" ", "")
        ok = t.startswith("2*bin_op[:,:n_qubits]") and "+bin_op[:,n_qubits:]" in t
    rep.decide(ok, rule, fb, ints[0] if ints else fb.node, text="int = 2 * x-block + z-block",
               what="binary -> integer uses the same (x-block | z-block) layout as integer -> binary",
               reason=f"int_op built as {norm(ints[0].value) if ints else '?'}")
    # -- binary_swap swaps the two blocks
    init = idx.function(f"{MULTI}::MultiformOperator.__init__")
    sw = [n for n in own_nodes(init.node) if isinstance(n, ast.Assign) and isinstance(n.targets[0], ast.Name) and n.targets[0].id == "list_col_swap"]
    ok = bool(sw) and norm(sw[0].value).replace(" ", "") == "list(range(n_qubits,2*n_qubits))+list(range(n_qubits))"
    rep.decide(ok, rule, init, sw[0] if sw else init.node, text="binary_swap = (z-block | x-block)",
               what="the swapped form exchanges the x and z blocks", reason=f"swap columns {norm(sw[0].value) if sw else '?'}")
    # -- phase table and XOR label in __mul__
    mul = idx.function(f"{MULTI}::MultiformOperator.__mul__")
    ctab = None
    for n in own_nodes(mul.node):
        if isinstance(n, ast.Assign) and isinstance(n.value, ast.Call) and norm(n.value.func) in ("np.array", "numpy.array") and \
                n.value.args and isinstance(n.value.args[0], ast.List) and len(n.value.args[0].elts) == 4:
            ctab = n
    if ctab is None:
        raise AnalysisError("MultiformOperator.__mul__: phase table not found")
    tab = [[complex(ast.literal_eval(x)) for x in row.elts] for row in ctab.value.args[0].elts]
    code = {0: "I", 1: "Z", 2: "X", 3: "Y"}
    if enc:
        code = {v: k for k, v in enc.items()}
    for a in range(4):
        for b in range(4):
            pa, pb = symx.PAULI[code[a]], symx.PAULI[code[b]]
            prod = pa * pb
            lab = a ^ b
            ph = sp.nsimplify(tab[a][b].real) + sp.I * sp.nsimplify(tab[a][b].imag)
            ok = symx.matrix_equal(prod, ph * symx.PAULI[code[lab]])
            rep.decide(ok, rule, mul, ctab, text=f"{code[a]}*{code[b]} = {ph} {code[lab]}",
                       what="phase table entry [a][b] and XOR label reproduce the Pauli product sigma_a sigma_b",
                       reason=f"table gives {ph} * {code[lab]}, but {code[a]}*{code[b]} = {sp.simplify(prod).tolist()}")
    # how the table is indexed and how the product label is formed is decided by the folded products (K9.multiform-semantics: every ordered pair of two-qubit
    # words, phases included) - not by the spelling of the subscript, which alarmed on a behaviour-preserving rewrite of the product loop


def check_multiform_semantics(idx: Index, rep: Report, tier: str):
    """The array-based operator form folded as a class (construction from a symbolic operator, product with duplicate collapse, commutation test), with
    numpy evaluating the array primitives on concrete tables, for every pair of two-qubit Pauli words and a set of multi-term operators; compared with the
    symbolic form computed by the checker's own Pauli algebra (sa/rules/ofmodel.py)."""
    import itertools
    from ..consteval import FuncVal, Raised, Undecidable
    from ..rules import circuitsem as cs
    from ..rules.ofmodel import OrdQubitOp, _simplify
    rule = "K9.multiform-semantics"
    cls = cs.module_resolver(idx, MULTI)("MultiformOperator")
    if cls is None:
        raise AnalysisError("MultiformOperator not resolvable")
    fq = idx.function(f"{MULTI}::MultiformOperator.from_qubitop")
    dc = idx.function(f"{MULTI}::do_commute")
    mul = idx.function(f"{MULTI}::MultiformOperator.__mul__")

    def folder():
        fo = cs.make_folder(idx, MULTI, ctors={"count_qubits": lambda a, k: max([q for t in a[0].terms for q, _ in t] + [-1]) + 1, "QubitOperator": lambda a, k: OrdQubitOp(*a, **k)})
        fo.real_arrays = True
        return fo

    def qop(terms):
        q = OrdQubitOp()
        q.terms = dict(terms)
        return q

    def word(w):
        return tuple((i, p) for i, p in enumerate(w) if p != "I")
    words = ["".join(w) for w in itertools.product("IXYZ", repeat=2)]
    multi = [{word("XZ"): 1.0, word("IY"): 2.0}, {word("ZI"): 1.0, word("XY"): 0.5}, {word("XI"): 1.0, word("IZ"): 2.0}, {word("ZZ"): -1.5, word("XX"): 1.0, word("YY"): 1.0},
             {word("XI"): 1.0, word("ZI"): 1.0}, {word("XY"): 1j, word("YX"): -1j, word("II"): 0.5},
             # a product whose identity part cancels inexactly (0.1 + 0.2 - 0.3 in floating point): the residual is a term like any other
             {word("XI"): 0.1, word("ZI"): 0.2, word("II"): -0.3}, {word("XI"): 1.0, word("ZI"): 1.0, word("II"): 1.0}]
    ops = [{word(w): 1.0} for w in words] + multi
    try:
        forms = [folder().call_funcval(FuncVal(fq.node, home=MULTI), [cls, qop(t), 2], {}) for t in ops]
    except (Undecidable, Raised) as e:
        raise AnalysisError(f"MultiformOperator.from_qubitop not foldable: {e}")

    def anti(wa, wb):
        da, db = dict(wa), dict(wb)
        return sum(1 for q in set(da) & set(db) if da[q] != db[q]) % 2 == 1
    pairs = list(itertools.product(range(len(ops)), repeat=2))
    bad_c, bad_t, bad_p = [], [], []
    n = 0
    for i, j in pairs:
        ta, tb = ops[i], ops[j]
        per_term = [not any(anti(wa, wb) for wb in tb) for wa in ta]
        try:
            got = folder().run_function(dc.node, {"hybrid_op_a": forms[i], "hybrid_op_b": forms[j], "term_resolved": False})
            got_t = folder().run_function(dc.node, {"hybrid_op_a": forms[i], "hybrid_op_b": forms[j], "term_resolved": True})
        except Undecidable as e:
            raise AnalysisError(f"do_commute not foldable: {e}")
        except Raised as e:
            bad_c.append(f"{ta} / {tb}: raises {e.exc_type}")
            continue
        n += 1
        if bool(got) != all(per_term) or not isinstance(got, (bool,)) and type(got).__name__ not in ("bool_", "bool"):
            bad_c.append(f"do_commute({_show(ta)}, {_show(tb)}) = {got!r}, the symbolic test gives {all(per_term)}")
        if [bool(x) for x in list(got_t)] != per_term:
            bad_t.append(f"do_commute({_show(ta)}, {_show(tb)}, term_resolved=True) = {[bool(x) for x in list(got_t)]}, the symbolic test gives {per_term}")
    rep.decide(not bad_c, rule, dc, dc.node, text=f"do_commute on {n} ordered pairs of two-qubit operators (16 words, {len(multi)} multi-term operators)",
               what="two operators are reported as commuting exactly when no term of the first anticommutes with a term of the second - as the symbolic Pauli algebra says",
               reason="; ".join(bad_c[:2]))
    rep.decide(not bad_t, rule, dc, dc.node, text=f"do_commute(term_resolved=True) on the same {n} pairs",
               what="term by term, the array test marks a term of the first operator as commuting exactly when it commutes with every term of the second",
               reason="; ".join(bad_t[:2]))
    prod_pairs = pairs if tier == "thorough" else [(i, j) for i, j in pairs if (i + 3 * j) % 5 == 0 or i >= len(words) or j >= len(words)]
    m = 0
    for i, j in prod_pairs:
        want = {}
        for wa, ca in ops[i].items():
            for wb, cb in ops[j].items():
                ph, w = _simplify(tuple(wa) + tuple(wb))
                want[w] = want.get(w, 0) + ca * cb * ph
        want = {k: v for k, v in want.items() if abs(v) > 1e-12}
        try:
            fo = folder()
            prod = fo.call_funcval(FuncVal(mul.node, bound_self=forms[i], home=MULTI), [forms[j]], {})
        except Undecidable as e:
            raise AnalysisError(f"MultiformOperator.__mul__ not foldable: {e}")
        except Raised as e:
            bad_p.append(f"({_show(ops[i])}) * ({_show(ops[j])}) raises {e.exc_type}")
            continue
        m += 1
        got = {k: complex(v) for k, v in prod.fields["terms"].items() if abs(complex(v)) > 1e-12}
        if set(got) != set(want) or any(abs(got[k] - want[k]) > 1e-9 for k in want):
            bad_p.append(f"({_show(ops[i])}) * ({_show(ops[j])}) = {_show(got)}, symbolic product {_show(want)}")
        elif prod.fields["integer"].shape[0] != len(prod.fields["terms"]) or len(prod.fields["factors"]) != len(prod.fields["terms"]):
            bad_p.append(f"({_show(ops[i])}) * ({_show(ops[j])}): {prod.fields['integer'].shape[0]} rows for {len(prod.fields['terms'])} terms")
    # operands defined on registers of different sizes (from_qubitop sizes the arrays from the operator unless told otherwise): the narrower one is the identity elsewhere
    mixed = [({word("ZZ"): 1.0}, 2, {((0, "X"),): 1.0}, 1), ({((0, "X"),): 1.0}, 1, {word("ZZ"): 1.0}, 2),
             ({((0, "X"), (1, "Z")): 2.0, ((2, "Y"),): 0.5}, 3, {word("ZZ"): 1.0}, 2), ({((0, "Y"),): 1j}, 1, {((0, "X"), (1, "Z")): 2.0, ((2, "Y"),): 0.5}, 3)]
    for ta, na, tb, nb in mixed:
        try:
            fa = folder().call_funcval(FuncVal(fq.node, home=MULTI), [cls, qop(ta), na], {})
            fb = folder().call_funcval(FuncVal(fq.node, home=MULTI), [cls, qop(tb), nb], {})
            prod = folder().call_funcval(FuncVal(mul.node, bound_self=fa, home=MULTI), [fb], {})
        except Undecidable as e:
            raise AnalysisError(f"MultiformOperator.__mul__ not foldable on operands of different widths: {e}")
        except Raised as e:
            bad_p.append(f"({_show(ta)}) on {na} qubit(s) * ({_show(tb)}) on {nb}: raises {e.exc_type}")
            continue
        m += 1
        want = {}
        for wa_, ca in ta.items():
            for wb_, cb in tb.items():
                ph, w = _simplify(tuple(wa_) + tuple(wb_))
                want[w] = want.get(w, 0) + ca * cb * ph
        got = {k: complex(v) for k, v in prod.fields["terms"].items() if abs(complex(v)) > 1e-12}
        if set(got) != set(want) or any(abs(got[k] - want[k]) > 1e-9 for k in want):
            bad_p.append(f"({_show(ta)}) on {na} qubit(s) * ({_show(tb)}) on {nb} = {_show(got)}, symbolic product {_show(want)}")
    # chains: the product of a product (an operator left with a residual factor has to stay a usable operand)
    ia, ib = len(ops) - 2, len(ops) - 1
    for first, second, third in ((ia, ib, ib), (ib, ia, ib), (len(words) + 3, len(words) + 3, len(words) + 3)):
        try:
            p1 = folder().call_funcval(FuncVal(mul.node, bound_self=forms[first], home=MULTI), [forms[second]], {})
            p2 = folder().call_funcval(FuncVal(mul.node, bound_self=p1, home=MULTI), [forms[third]], {})
        except Undecidable as e:
            raise AnalysisError(f"MultiformOperator.__mul__ not foldable on a chain: {e}")
        except Raised as e:
            bad_p.append(f"(({_show(ops[first])}) * ({_show(ops[second])})) * ({_show(ops[third])}) raises {e.exc_type}")
            continue
        m += 1
        want = {(): 1.0}
        for t in (ops[first], ops[second], ops[third]):
            nxt = {}
            for wa_, ca in want.items():
                for wb_, cb in t.items():
                    ph, w = _simplify(tuple(wa_) + tuple(wb_))
                    nxt[w] = nxt.get(w, 0) + ca * cb * ph
            want = nxt
        got = {k: complex(v) for k, v in p2.fields["terms"].items()}
        if any(abs(got.get(k, 0) - want.get(k, 0)) > 1e-9 for k in set(got) | set(want)):
            bad_p.append(f"(({_show(ops[first])}) * ({_show(ops[second])})) * ({_show(ops[third])}) = {_show(got)}, symbolic product {_show(want)}")
        elif p2.fields["integer"].shape[0] != len(p2.fields["terms"]) or len(p2.fields["factors"]) != len(p2.fields["terms"]):
            bad_p.append(f"(({_show(ops[first])}) * ({_show(ops[second])})) * ({_show(ops[third])}): {p2.fields['integer'].shape[0]} rows for {len(p2.fields['terms'])} terms")
    rep.decide(not bad_p, rule, mul, mul.node, text=f"array product on {m} ordered pairs and chains: words, phases and collapsed duplicates",
               what="the product of two array-form operators has the terms and coefficients of the symbolic product, duplicate words added up, one row per term",
               reason="; ".join(bad_p[:2]))
    rep.floor("array-form pairs folded", n + m, 300)
    # methods that change an array-form operator in place (remove_terms, and _update after the terms were replaced): the operator that results has to
    # behave as the symbolic operator it now stands for - in the commutation test as first and as second operand, and in the product
    rm = idx.function(f"{MULTI}::MultiformOperator.remove_terms")
    upd = idx.function(f"{MULTI}::MultiformOperator._update")
    three = [{word("ZZ"): -1.5, word("XX"): 1.0, word("YY"): 1.0}, {word("XY"): 1j, word("YX"): -1j, word("II"): 0.5}, {word("XZ"): 1.0, word("IY"): 2.0, word("ZI"): 0.5, word("YY"): 0.25}]
    probes = [len(words) + k for k in range(len(multi))] + [words.index("XI"), words.index("ZY")]
    bad_m, k = [], 0

    def behaves_as(form, terms, label):
        nonlocal k
        got_terms = {kk: complex(v) for kk, v in form.fields["terms"].items()}
        if set(got_terms) != set(terms) or any(abs(got_terms[w] - terms[w]) > 1e-9 for w in terms):
            bad_m.append(f"{label}: terms are {_show(got_terms)}, expected {_show(terms)}")
            return
        for j in probes:
            tb = ops[j]
            for first, second, fa, fb in ((terms, tb, form, forms[j]), (tb, terms, forms[j], form)):
                per = [not any(anti(wa, wb) for wb in second) for wa in first]
                g_all = folder().run_function(dc.node, {"hybrid_op_a": fa, "hybrid_op_b": fb, "term_resolved": False})
                g_t = folder().run_function(dc.node, {"hybrid_op_a": fa, "hybrid_op_b": fb, "term_resolved": True})
                k += 1
                if bool(g_all) != all(per) or [bool(x) for x in list(g_t)] != per:
                    bad_m.append(f"{label}: do_commute({_show(first)}, {_show(second)}) = {bool(g_all)} / {[bool(x) for x in list(g_t)]}, the symbolic test gives {all(per)} / {per}")
            want = {}
            for wa, ca in terms.items():
                for wb, cb in tb.items():
                    ph, w = _simplify(tuple(wa) + tuple(wb))
                    want[w] = want.get(w, 0) + ca * cb * ph
            want = {kk: v for kk, v in want.items() if abs(v) > 1e-12}
            prod = folder().call_funcval(FuncVal(mul.node, bound_self=form, home=MULTI), [forms[j]], {})
            got = {kk: complex(v) for kk, v in prod.fields["terms"].items() if abs(complex(v)) > 1e-12}
            k += 1
            if set(got) != set(want) or any(abs(got[w] - want[w]) > 1e-9 for w in want):
                bad_m.append(f"{label}: product with {_show(tb)} = {_show(got)}, symbolic product {_show(want)}")
    try:
        for t in three:
            keys = list(t)
            for removed in ([0], [len(keys) - 1], 1) + (([0, 2],) if len(keys) > 3 else ()):
                form = folder().call_funcval(FuncVal(fq.node, home=MULTI), [cls, qop(t), 2], {})
                import numpy as _np
                folder().call_funcval(FuncVal(rm.node, bound_self=form, home=MULTI), [removed if isinstance(removed, int) else _np.array(removed)], {})
                gone = {removed} if isinstance(removed, int) else set(removed)
                behaves_as(form, {w: complex(c) for i, (w, c) in enumerate(t.items()) if i not in gone}, f"remove_terms({removed}) on {_show(t)}")
            # the terms replaced (what the inherited in-place arithmetic does), then the documented re-synchronisation
            form = folder().call_funcval(FuncVal(fq.node, home=MULTI), [cls, qop(t), 2], {})
            newt = {w: complex(c) for w, c in list(three[(three.index(t) + 1) % len(three)].items())}
            form.fields["terms"] = dict(newt)
            folder().call_funcval(FuncVal(upd.node, bound_self=form, home=MULTI), [2], {})
            behaves_as(form, newt, f"_update after the terms became {_show(newt)}")
    except Undecidable as e:
        raise AnalysisError(f"MultiformOperator.remove_terms / _update not foldable: {e}")
    except Raised as e:
        bad_m.append(f"raises {e.exc_type}")
    rep.decide(not bad_m, rule, rm, rm.node, text=f"remove_terms and _update: {k} commutation tests and products on the operator that results",
               what="after terms are removed or the arrays are rebuilt, the array-form operator behaves as the symbolic operator it now stands for (commutation test in "
                    "either operand position, product)", reason="; ".join(bad_m[:2]))
    if not bad_m:
        rep.floor("array-form operators after in-place changes: tests folded", k, 100)


def check_hamiltonian_plain_operand(idx: Index, rep: Report):
    """An annotated qubit Hamiltonian combined with a plain qubit operator (the repository's QubitOperator or openfermion's) in a sum, a difference and a
    product, in place and out of place.  QubitHamiltonian is folded as a class; what it inherits from openfermion is a checker-side model that behaves as
    openfermion does: its in-place operators accept a number or an operand of the class of `self`, and raise TypeError for anything else.  Each form has to
    return the algebraically correct annotated operator and leave the plain operand alone; a form the class does not define falls back on the inherited
    operator and fails on a plain operand."""
    from ..consteval import FuncVal, Raised, Rec, Undecidable
    from ..rules import circuitsem as cs
    from ..rules.ofmodel import _simplify
    rule = "K6.plain-operand"
    cls = cs.module_resolver(idx, OPS)("QubitHamiltonian")
    ci = idx.cls(f"{OPS}::QubitHamiltonian")
    if cls is None:
        raise AnalysisError("QubitHamiltonian not resolvable")

    def is_op(v):
        return isinstance(v, Rec) and v.cls in ("QubitHamiltonian", "QubitOperator", "of.QubitOperator")

    def hook(v, t):
        if t == "QubitHamiltonian":
            return isinstance(v, Rec) and v.cls == "QubitHamiltonian"
        if t == "QubitOperator":
            return isinstance(v, Rec) and v.cls in ("QubitHamiltonian", "QubitOperator")
        if t == "of.QubitOperator":
            return is_op(v)
        return None

    class _Base:
        """openfermion's SymbolicOperator seen through super(QubitOperator, self)"""
        _sa_model = True

        def __init__(self, rec):
            self.rec = rec

        def _operand(self, o, verb):
            if isinstance(o, (int, float, complex)):
                return None
            if not (isinstance(o, Rec) and o.cls == self.rec.cls):
                raise Raised("TypeError", None)
            return o

    def base_init(b, term=None, coefficient=1.):
        b.rec.fields["terms"] = {} if term is None else {tuple(term): coefficient}

    def base_iadd(b, o, sign=1):
        oo = b._operand(o, "add")
        if oo is None:
            b.rec.fields["terms"][()] = b.rec.fields["terms"].get((), 0) + sign * o
        else:
            for w, c in oo.fields["terms"].items():
                b.rec.fields["terms"][w] = b.rec.fields["terms"].get(w, 0) + sign * c
        return b.rec

    def base_imul(b, o):
        oo = b._operand(o, "multiply")
        if oo is None:
            b.rec.fields["terms"] = {w: c * o for w, c in b.rec.fields["terms"].items()}
            return b.rec
        out = {}
        for wa, ca in b.rec.fields["terms"].items():
            for wb, cb in oo.fields["terms"].items():
                ph, w = _simplify(tuple(wa) + tuple(wb))
                out[w] = out.get(w, 0) + ca * cb * ph
        b.rec.fields["terms"] = out
        return b.rec
    methods = {"__init__": base_init, "__iadd__": lambda b, o: base_iadd(b, o, 1), "__isub__": lambda b, o: base_iadd(b, o, -1), "__imul__": base_imul}

    class _Super:
        _sa_model = True

        def __init__(self, term=None, coefficient=1.):          # the base constructor, as the class calls it through super()
            base_init(self._b, term, coefficient)

        def __getattr__(self, name):
            if name in methods:
                return lambda *a, **k: methods[name](self._b, *a, **k)
            raise AttributeError(name)

    def make_super(rec):
        sup = object.__new__(_Super)
        sup._b = _Base(rec)
        return sup

    def folder():
        fo = cs.make_folder(idx, OPS, ctors={"super": lambda a, k: make_super(a[1])})
        fo.isinstance_hook = hook
        return fo
    wa, wb = ((0, "X"), (1, "Y")), ((0, "Z"),)
    ph, wprod = _simplify(wa + wb)
    forms = {"__iadd__": ({wa: 2.0, wb: 0.5}, True), "__isub__": ({wa: 2.0, wb: -0.5}, True), "__imul__": ({wprod: 2.0 * 0.5 * ph}, True), "__mul__": ({wprod: 2.0 * 0.5 * ph}, False)}
    n = 0
    for name, (want, inplace) in forms.items():
        meth = ci.methods.get(name)
        for kind in ("QubitOperator", "of.QubitOperator"):
            label = f"QubitHamiltonian.{name} with a plain {kind}"
            if meth is None:
                n += 1
                rep.violation(rule, (OPS, "QubitHamiltonian"), ci.node, text=label, what="an annotated Hamiltonian combines with a plain qubit operator in sums, differences and products",
                              reason=f"QubitHamiltonian does not define {name}: the inherited operator only accepts an operand of the class of self and raises TypeError for a plain operator")
                continue
            qh = Rec("QubitHamiltonian", {"terms": {wa: 2.0}, "mapping": "JW", "up_then_down": False})
            qh.cls_val = cls
            q = Rec(kind, {"terms": {wb: 0.5}})
            q.closed = True                 # a plain operator has its terms and nothing else: reading another attribute is an AttributeError
            try:
                out = folder().call_funcval(FuncVal(meth.node, bound_self=qh, home=OPS), [q], {})
            except Undecidable as e:
                raise AnalysisError(f"QubitHamiltonian.{name} not foldable: {e}")
            except Raised as e:
                n += 1
                rep.violation(rule, meth, meth.node, text=label, what="an annotated Hamiltonian combines with a plain qubit operator in sums, differences and products",
                              reason=f"raises {e.exc_type}: the plain operand reaches the inherited operator, which only accepts an operand of the class of self")
                continue
            n += 1
            got = {w: complex(c) for w, c in out.fields["terms"].items() if abs(complex(c)) > 1e-12} if isinstance(out, Rec) else None
            ok = got is not None and set(got) == set(want) and all(abs(got[w] - want[w]) < 1e-12 for w in want) and out.fields.get("mapping") == "JW" and \
                out.fields.get("up_then_down") is False and q.fields["terms"] == {wb: 0.5} and (inplace == (out is qh)) and (inplace or qh.fields["terms"] == {wa: 2.0})
            rep.decide(ok, rule, meth, meth.node, text=label, what="the result is the algebraically correct operator with the Hamiltonian's mapping attributes; the plain operand "
                       "(and, out of place, the Hamiltonian) is left as it was", reason=f"result {out!r:.160}; operand {q.fields['terms']}")
    rep.floor("annotated-with-plain operand forms", n, 8)


def check_scalar_arithmetic(idx: Index, rep: Report):
    """Sum and difference of a fermionic operator and a scalar, with the operator on either side and in place, folded for every kind of scalar the class
    admits (python int / float / complex, numpy floating, signed and unsigned numpy integers): the constant of the result is the exact sum or difference
    computed by the checker on python numbers, the other terms are unchanged (negated for scalar - operator), and the out-of-place forms leave the operand
    as it was.  What the class inherits from openfermion (the constant property, multiplication by a number) is a checker-side model."""
    import numpy as np
    from ..consteval import FuncVal, Raised, Rec, Undecidable
    from ..rules import circuitsem as cs
    rule = "K9.scalar-arithmetic"
    cls = cs.module_resolver(idx, OPS)("FermionOperator")
    if cls is None:
        raise AnalysisError("FermionOperator not resolvable")
    samples = [3, -2, 2.5, 1j, 0.5 - 2j, np.float64(2.5), np.float32(0.5), np.int64(3), np.int8(-3), np.uint8(3), np.uint16(7), np.uint64(5), np.complex128(1 + 2j)]
    word = ((0, 1), (0, 0))
    c0, t0 = 1.0, 2.0

    def hook(v, t):
        if t in ("FermionOperator", "of.FermionOperator", "QubitOperator", "of.QubitOperator"):
            return isinstance(v, Rec)
        if t == "COEFFICIENT_TYPES":
            return isinstance(v, (int, float, complex, np.integer, np.floating)) and not isinstance(v, bool) or \
                isinstance(v, sp.Basic) if not isinstance(v, Rec) else False
        return None

    def scaled(rec, k):
        if isinstance(k, (Rec, Opaque)):
            raise Undecidable("operator product")
        out = Rec(rec.cls, dict(rec.fields))
        out.cls_val = rec.cls_val
        out.fields["terms"] = {w: c * k for w, c in rec.fields["terms"].items()}
        return out

    def get_const(rec):
        return rec.fields["terms"].get((), 0.0)

    def set_const(rec, v):
        rec.fields["terms"][()] = v
    forms = {"__iadd__": (1, 1, True), "__add__": (1, 1, False), "__radd__": (1, 1, False), "__isub__": (1, -1, True), "__sub__": (1, -1, False), "__rsub__": (-1, 1, False)}
    n = 0
    for name, (sign_op, sign_s, inplace) in forms.items():
        f = idx.function(f"{OPS}::FermionOperator.{name}")
        bad = []
        for sc in samples:
            exact = sc.item() if isinstance(sc, np.generic) else sc
            fo = cs.make_folder(idx, OPS, ctors={})
            fo.real_arrays = True
            fo.isinstance_hook = hook
            fo.inherited_dunders = {"__mul__": scaled, "__rmul__": scaled, "__neg__": lambda r, _=None: scaled(r, -1)}
            fo.inherited_props = {"constant": (get_const, set_const)}          # openfermion: the constant is the coefficient of the empty term
            r = Rec("FermionOperator", {"terms": {word: t0, (): c0}, "n_spinorbitals": None, "n_electrons": None, "spin": None})
            r.cls_val = cls
            try:
                out = fo.call_funcval(FuncVal(f.node, bound_self=r, home=OPS), [sc], {})
            except Undecidable as e:
                raise AnalysisError(f"FermionOperator.{name} not foldable on a {type(sc).__name__}: {e}")
            except Raised as e:
                bad.append(f"{type(sc).__name__}({sc}): raises {e.exc_type}")
                continue
            n += 1
            want_c, want_t = sign_op * c0 + sign_s * exact, sign_op * t0
            if not isinstance(out, Rec):
                bad.append(f"{type(sc).__name__}({sc}): returns {out!r}")
            elif abs(complex(get_const(out)) - complex(want_c)) > 1e-12 or abs(complex(out.fields["terms"].get(word, 0)) - want_t) > 1e-12:
                bad.append(f"{type(sc).__name__}({sc}): constant {complex(get_const(out)):g}, term {complex(out.fields['terms'].get(word, 0)):g}; exact result {complex(want_c):g}, {want_t:g}")
            elif inplace != (out is r) or (not inplace and r.fields["terms"] != {word: t0, (): c0}):
                bad.append(f"{type(sc).__name__}({sc}): {'a new object is returned by the in-place form' if inplace else 'the operand is changed by the out-of-place form'}")
        rep.decide(not bad, rule, f, f.node, text=f"FermionOperator.{name} with {len(samples)} kinds of scalar",
                   what="operator and scalar combine to the exact sum / difference for every admitted kind of scalar, on either side, leaving the operand of the out-of-place forms unchanged",
                   reason="; ".join(bad[:3]))
    rep.floor("scalar arithmetic cases folded", n, 60)


def _show(terms) -> str:
    return " + ".join(f"{v:g} {''.join(p + str(q) for q, p in k) or 'I'}" if not isinstance(v, complex) or v.imag == 0 else f"({v:g}) {''.join(p + str(q) for q, p in k) or 'I'}"
                      for k, v in list(terms.items())[:4]) or "0"


WIDE_INT = {"int", "np.int64", "np.intp", "np.int32", "np.uint32", "np.uint64", "numpy.int64", "numpy.intp", "'int64'", "'int'", "np.int_"}


def check_index_ranges(idx: Index, rep: Report):
    """Arrays that enumerate rows or columns 0..n-1 (n a length or a shape entry) are later used to gather from other arrays; their
    element type has to hold n-1 for every n, i.e. it is a fixed wide integer type and not one inherited from the data
    (Pauli words are stored as int8: a row counter in that type wraps beyond 127 rows)."""
    rule = "K9.index-range-width"
    mm = idx.module_by_relpath(MULTI)
    count = 0
    for f in mm.functions.values():
        for n in own_nodes(f.node):
            if not (isinstance(n, ast.Call) and norm(n.func) in ("np.linspace", "np.arange", "numpy.linspace", "numpy.arange")):
                continue
            bounds = " ".join(norm(a) for a in n.args)
            if "len(" not in bounds and ".shape" not in bounds and "n_terms" not in bounds and "n_qubits" not in bounds:
                continue
            count += 1
            dt = next((norm(k.value) for k in n.keywords if k.arg == "dtype"), None)
            if dt is None and norm(n.func).endswith("arange"):
                dt = "int"                      # arange over integers defaults to the platform integer
            # a conversion wrapped around the counter (x.astype(T), np.array(x, dtype=T), ...) decides the element type in the end
            parents = {ch: par for par in ast.walk(f.node) for ch in ast.iter_child_nodes(par)}
            cur = n
            while cur in parents and not isinstance(parents[cur], ast.stmt):
                cur = parents[cur]
                if isinstance(cur, ast.Call) and isinstance(cur.func, ast.Attribute) and cur.func.attr == "astype" and cur.args:
                    dt = norm(cur.args[0])
                elif isinstance(cur, ast.Call) and cur is not n:
                    dt = next((norm(k.value) for k in cur.keywords if k.arg == "dtype"), dt)
            rep.decide(dt in WIDE_INT, rule, f, n, text=f"{norm(n.func)}({bounds[:60]}) dtype={dt}",
                       what="a 0..n-1 counter array has a fixed wide integer element type (it must hold n-1 for every n)",
                       reason=f"element type is `{dt}`: not a fixed wide integer type, so the counter can wrap or lose precision for large n "
                              f"(Pauli-word arrays are int8: a counter in the data's type wraps beyond 127 rows) and the rows gathered through it are wrong")
    rep.floor("0..n-1 counter arrays in multiformoperator.py", count, 2)


# ---------------------------------------------------------------------------------------------------
def check_resync_after_compress(idx: Index, rep: Report):
    """MultiformOperator keeps four array forms next to the symbolic terms; the inherited in-place arithmetic only changes the terms, and
    `compress` is the documented point where the arrays are rebuilt from them.  Every path through `compress` must therefore pass through
    `self._update(...)` (a must-pass-through obligation on the method's flow graph): a conditional rebuild leaves stale arrays behind, and the
    array-based product then disagrees with the symbolic one."""
    rule = "K6.resync"
    from ..cfg import CFG
    m = idx.function(f"{MULTI}::MultiformOperator.compress")
    g = CFG(m.node)
    calls = [n for n in ast.walk(m.node) if isinstance(n, ast.Expr) and isinstance(n.value, ast.Call) and norm(n.value.func) == "self._update"]
    if not calls:
        rep.violation(rule, m, m.node, text="compress rebuilds the array forms", what="after compress() the array forms are those of the current terms", reason="no call of self._update in compress")
        return
    ok = g.must_pass_through(g.entry.id, g.return_exit.id, [g.node_for(c) for c in calls])
    rep.decide(ok, rule, m, calls[0], text="every path through compress() passes through self._update(...)",
               what="after compress() the array forms (factors, integer, binary, binary_swap) are those of the current terms, whatever the compression removed",
               reason="some path through compress() skips self._update: in-place arithmetic followed by compress() leaves factors / integer / binary stale, "
                      "and the array-based product no longer matches the symbolic operator")


def check_plain_operand_guard(idx: Index, rep: Report):
    """Where QubitHamiltonian admits a plain operator (one without mapping information) it must admit every plain operator the inherited
    arithmetic admits - openfermion's QubitOperator and with it the repository's subclass.  A test against the repository's subclass only is
    narrower than the operand type and turns a documented operand into a TypeError."""
    rule = "K6.attr-guard"
    ci = idx.cls(f"{OPS}::QubitHamiltonian")
    n = 0
    for mname in ("__iadd__", "__eq__", "__add__", "__isub__", "__sub__", "__imul__", "_checked_operand"):
        m = ci.methods.get(mname)
        if m is None:
            continue
        other = [p for p in m.params if p != "self"]
        if not other:
            continue
        for c in ast.walk(m.node):
            if isinstance(c, ast.Call) and norm(c.func) == "isinstance" and len(c.args) == 2 and norm(c.args[0]) == other[0]:
                for t in (c.args[1].elts if isinstance(c.args[1], ast.Tuple) else [c.args[1]]):
                    r = idx.resolve_expr(m.module, t)
                    if isinstance(r, ClassInfo) and not r.module.external and r.name != "QubitHamiltonian":
                        ext = [b for b in idx.mro(r) if b.module.external and b.name == r.name]
                        n += 1
                        rep.decide(not ext, rule, m, c, text=f"QubitHamiltonian.{mname}: operand test {norm(c)}",
                                   what="a plain operand is recognised by the most general operator class the inherited arithmetic accepts",
                                   reason=f"`{norm(c)}` tests for the repository's {r.name}, a subclass of openfermion's {r.name}: an openfermion operator - which the "
                                          f"inherited arithmetic accepts from plain operators - is no longer recognised and ends in a TypeError")
                    elif isinstance(r, ClassInfo):
                        n += 1
                        rep.ok(rule, m, c, text=f"QubitHamiltonian.{mname}: operand test {norm(c)}", what="a plain operand is recognised by the most general operator class the inherited arithmetic accepts")
    if n == 0:
        rep.info(rule, ci.methods.get("__iadd__") or (OPS, "QubitHamiltonian"), None, text="QubitHamiltonian: no operand type test on the other operand",
                 reason="nothing to decide for this rule (the attribute-guard obligations above cover operands that lack the subclass attributes)")
