"""C20 Fourier transform, state initialisation and phase estimation (two generator clauses).

State initialisation (data-dependent multiplexed rotations) and the phase-estimation algorithms as a whole are products of runtime
unitaries and are not decided.  Two clauses are facts about gate lists generated from an index list only:

C20.a K9  `get_qft_circuit` folded for registers of 1-4 listed qubits - in order, out of order, and inside a wider circuit - and
          the unitary of the generated gate list (checker-side reference matrices) compared with the discrete Fourier transform of
          the register value x = sum_k b(q_k) 2^k (first listed qubit least significant); the inverse option gives the adjoint; without
          the final swaps the result is the transform followed by the reversal of the listed qubits; qubits not listed are untouched
C20.b K9  the phase read off an outcome string is its binary fraction 0.b1 b2 ... (first character most significant): folded for every
          string of up to 5 bits
The generator is uniform in the register length (one recursion), so lengths 1-4 exercise every branch of it; larger registers are an
assumption of that uniformity, stated as such.
"""
from __future__ import annotations

import ast
import itertools
import math
from typing import List

import numpy as np

from ..consteval import FuncVal, Raised, Rec, Undecidable
from ..index import AnalysisError, Index, norm
from ..report import Report
from ..rules import circuitsem as cs
from ..rules import numsem

AU = "tangelo/toolboxes/ansatz_generator/ansatz_utils.py"
QPE = "tangelo/algorithms/projective/qpe.py"


class _Circ:
    _sa_model = True

    def __init__(self, gates=None, n_qubits=None, **_kw):
        self._gates = list(gates or [])
        self.n_qubits = n_qubits

    def __add__(self, o):
        return _Circ(self._gates + o._gates)
    __iadd__ = __add__


def run(idx: Index, rep: Report, tier: str):
    rep.explain("C20, two generator clauses: the quantum Fourier transform gate list folded for short registers and compared, as a matrix, with "
                "the discrete Fourier transform in the stated bit order; the bitstring-to-phase conversion of phase estimation.")
    rep.trust("CPython ast", "sa.consteval folding subset", "reference gate matrices (sa/symx.py via sa/rules/numsem.py), numpy complex arithmetic")
    rep.assume("registers longer than four qubits (Fourier transform) / three qubits (state initialisation) rely on the uniformity of the recursive generators",
               "standard phase estimation as a whole circuit and controlled time evolution of non-commuting Hamiltonians are not decided")
    check_qft(idx, rep, tier)
    check_phase_readout(idx, rep)
    check_iqpe_feedback(idx, rep, tier)
    check_state_preparation(idx, rep, tier)
    check_qpe_register(idx, rep, tier)
    check_unitary_qubit_lists(idx, rep)
    # the controlled evolution phase estimation kicks back from: the operator-exponential generator under control, angles at multiples of the period included
    from .C06 import check_operator_circuit
    check_operator_circuit(idx, rep)


def _dft_on(qubits: List[int], n_total: int, inverse: bool, swap: bool) -> np.ndarray:
    """reference: DFT of the register value x = sum_k b(q_k) 2^k on the listed qubits of an n_total-qubit space (qubit 0 = most significant
    Kronecker factor, as in numsem); without swap the output bits of the listed qubits are reversed"""
    n = len(qubits)
    N = 2 ** n
    dim = 2 ** n_total
    U = np.zeros((dim, dim), dtype=complex)

    def bit(state, q):
        return (state >> (n_total - 1 - q)) & 1

    def with_bits(state, vals):
        for q, v in zip(qubits, vals):
            mask = 1 << (n_total - 1 - q)
            state = (state | mask) if v else (state & ~mask)
        return state
    sign = -1 if inverse else 1
    for s in range(dim):
        bits_in = [bit(s, q) for q in qubits]
        if not swap and inverse:
            bits_in = bits_in[::-1]            # inverse without swaps: the adjoint of (reversal after DFT) reverses first
        x = sum(b << k for k, b in enumerate(bits_in))
        for y in range(N):
            yb = [(y >> k) & 1 for k in range(n)]
            if not swap and not inverse:
                yb = yb[::-1]
            t = with_bits(s, yb)
            U[t, s] += np.exp(sign * 2j * math.pi * x * y / N) / math.sqrt(N)
    return U


def check_qft(idx: Index, rep: Report, tier: str):
    rule = "K9.qft"
    f = idx.function(f"{AU}::get_qft_circuit")
    layouts = [([0], 1), ([0, 1], 2), ([1, 0], 2), ([0, 1, 2], 3), ([2, 0, 1], 3), ([1, 3], 4), ([3, 0, 2], 4), (2, 2), (3, 3)]
    if tier == "thorough":
        layouts += [([0, 1, 2, 3], 4), ([3, 1, 0, 2], 4), ([4, 2], 5)]
    else:
        layouts += [([0, 1, 2, 3], 4)]
    n = 0
    for qubits, width in layouts:
        for inverse in (False, True):
            for swap in (True, False):
                fo = cs.make_folder(idx, AU, ctors={"Circuit": lambda a, k: _Circ(*a, **k)})
                fo.env["np.pi"] = math.pi
                try:
                    c = fo.run_function(f.node, {"qubits": list(qubits) if isinstance(qubits, list) else qubits, "n_qubits": width, "inverse": inverse, "swap": swap})
                except (Undecidable, Raised) as e:
                    raise AnalysisError(f"get_qft_circuit not foldable for {qubits}: {e}")
                if not isinstance(c, _Circ):
                    raise AnalysisError(f"get_qft_circuit folded to {c!r}")
                ql = list(range(qubits)) if isinstance(qubits, int) else list(qubits)
                got = numsem.circuit_unitary(c._gates, width)
                want = _dft_on(ql, width, inverse, swap)
                d = float(np.max(np.abs(got - want)))
                n += 1
                rep.decide(d < 1e-9 and c.n_qubits == width, rule, f, f.node,
                           text=f"qubits {qubits} in a {width}-qubit circuit, inverse={inverse}, swap={swap}: {len(c._gates)} gates",
                           what="the gate list is the discrete Fourier transform of the listed register (first listed qubit least significant), its adjoint for the inverse "
                                "option, followed by (preceded by, for the inverse) the reversal of the listed qubits when the swaps are left out; other qubits untouched",
                           reason=f"largest deviation from the reference matrix {d:.3g}")
    rep.floor("QFT layouts folded", n, 36)


def check_phase_readout(idx: Index, rep: Report):
    rule = "K9.phase-readout"
    cls = idx.cls(f"{QPE}::QPESolver")
    f = cls.methods["energy_estimation"]
    bad = []
    n = 0
    for ln in range(1, 6):
        for bits in itertools.product("01", repeat=ln):
            b = "".join(bits)
            fo = cs.make_folder(idx, QPE)
            try:
                got = fo.run_function(f.node, {"self": Rec("QPESolver", {}), "bitstring": b})
            except (Undecidable, Raised) as e:
                raise AnalysisError(f"QPESolver.energy_estimation not foldable: {e}")
            n += 1
            if abs(float(got) - int(b, 2) / 2 ** ln) > 1e-15:
                bad.append((b, float(got)))
    rep.decide(not bad, rule, f, f.node, text=f"all {n} outcome strings of 1-5 bits: phase = 0.b1 b2 ... in binary",
               what="the phase assigned to an outcome string is its binary fraction, first character most significant", reason=f"e.g. {bad[:2]}")


IQPE = "tangelo/algorithms/projective/iqpe.py"


class _KickUnitary:
    """stand-in for the controlled time evolution: build_circuit(n_steps, control) returns one marker gate KICK(n_steps) on the control qubit; on an eigenstate
    with eigenphase phi the controlled evolution multiplies the control's |1> by exp(2 pi i phi n_steps)"""
    _sa_model = True

    def build_circuit(self, n_steps, control=None, method=None):
        from ..consteval import make_gate
        return _Circ([make_gate(["KICK", [control]], {"parameter": n_steps})])


def check_iqpe_feedback(idx: Index, rep: Report, tier: str):
    """The classical feedback of iterative phase estimation (IterativeQPEControl) folded as a class, with the controlled evolution replaced by its phase kickback
    on an eigenstate.  For every eigenphase that an n-bit register represents exactly (n = 1..4) the ancilla qubit is propagated through the gates the control
    object returns after each outcome: every measurement must be deterministic, and the outcomes - read the way IterativeQPESolver.simulate reads them - must
    spell the eigenphase.  This decides the feedback rule (which earlier bits enter the phase correction of a later one, with which weight)."""
    import cmath
    from ..consteval import FuncVal
    from ..rules.circuitsem import module_resolver
    rule = "K9.iqpe-feedback"
    cls = module_resolver(idx, IQPE)("IterativeQPEControl")
    if cls is None:
        raise AnalysisError("IterativeQPEControl not resolvable")
    ctl = idx.function(f"{IQPE}::IterativeQPEControl.return_gates")
    read = idx.cls(f"{IQPE}::IterativeQPESolver").methods["energy_estimation"]

    def call(obj, meth, *args):
        fo = cs.make_folder(idx, IQPE)
        fo.env["np.pi"] = math.pi
        return fo.call_funcval(FuncVal(obj.cls_val.methods[meth], bound_self=obj, home=IQPE), list(args), {})
    n_cases = 0
    for n_bits in (1, 2, 3, 4) if tier == "thorough" else (1, 2, 3, 4):
        bad, side = [], []
        for k in range(2 ** n_bits):
            phi = k / 2 ** n_bits
            try:
                fo = cs.make_folder(idx, IQPE)
                fo.env["np.pi"] = math.pi
                obj = fo.instantiate(cls, [n_bits, 0, _KickUnitary()], {})
                for shot in range(2):                   # two shots on the same control object: finalize() has to restore whatever a shot changed
                    state = [1.0 + 0j, 0j]
                    outcome = "0"                       # the first (dummy) measurement of the ancilla in |0>
                    for _round in range(n_bits + 2):
                        gates = call(obj, "return_gates", outcome)
                        if not gates:
                            break
                        for g in gates:
                            nm, par = g.fields["name"], g.fields["parameter"]
                            a, b = state
                            if nm == "X":
                                state = [b, a]
                            elif nm == "H":
                                state = [(a + b) / math.sqrt(2), (a - b) / math.sqrt(2)]
                            elif nm == "PHASE":
                                state = [a, b * cmath.exp(1j * float(par))]
                            elif nm == "KICK":
                                state = [a, b * cmath.exp(2j * math.pi * phi * float(par))]
                            elif nm == "CMEASURE":
                                p1 = abs(b) ** 2
                                if min(p1, 1 - p1) > 1e-9:
                                    raise _NotDeterministic(p1, shot)
                                outcome = "1" if p1 > 0.5 else "0"
                                state = [0j, 1.0 + 0j] if outcome == "1" else [1.0 + 0j, 0j]
                            else:
                                raise AnalysisError(f"IterativeQPEControl.return_gates emits a gate this check does not model: {nm}")
                    else:
                        raise AnalysisError("IterativeQPEControl.return_gates does not terminate after n_bits rounds")
                    measured = obj.fields["measurements"][obj.fields["n_runs"]]
                    recorded = obj.fields["energies"][obj.fields["n_runs"]]
                    got = cs.make_folder(idx, IQPE).run_function(read.node, {"self": Rec("IterativeQPESolver", {}), "bitstring": measured[::-1]})
                    if abs(float(got) - phi) > 1e-12:
                        bad.append(f"phase {phi}, shot {shot + 1}: outcomes {measured!r} are read as {float(got)}")
                        break
                    elif abs(float(recorded) - phi) > 1e-12:
                        side.append(f"phase {phi}: recorded {float(recorded)}")
                    call(obj, "finalize")
            except _NotDeterministic as nd:
                bad.append(f"phase {phi}, shot {nd.args[1] + 1}: an outcome has probability {nd.args[0]:.3f} (the correction does not cancel the lower bits" +
                           (" - state left over from the previous shot)" if nd.args[1] else ")"))
                continue
            except (Undecidable, Raised) as e:
                raise AnalysisError(f"IterativeQPEControl not foldable: {e}")
        n_cases += 2 ** n_bits
        rep.decide(not bad, rule, ctl, ctl.node, text=f"{n_bits}-bit register: all {2 ** n_bits} exactly representable eigenphases, two shots on one control object",
                   what="with the returned phase corrections every ancilla measurement is deterministic on an eigenstate, the outcomes spell the eigenphase (least significant bit "
                        "first)",
                   reason="; ".join(bad[:3]))
        if side and not bad:
            # not part of what simulate() returns (the property is stated on the returned phase): reported, not a violation
            rep.info(rule, ctl, ctl.node, text=f"{n_bits}-bit register: running record `energies` of the control object",
                     what="the control object's own record of the phase", reason=f"differs from the eigenphase for {len(side)} phases, e.g. {side[0]} (each bit is weighted one place too high)")
    rep.floor("iQPE eigenphases propagated", n_cases, 30)


class _NotDeterministic(Exception):
    pass


SVF = "tangelo/linq/helpers/circuits/statevector.py"


def check_state_preparation(idx: Index, rep: Report, tier: str):
    """StateVector folded as a class (with the repository's Circuit and Gate classes; numpy evaluates the angle arithmetic on the concrete amplitudes) for a
    table of amplitude vectors on one to three qubits - dense and sparse, real, signed and complex, basis states - in both qubit orders: the unitary of the
    initialising circuit, applied to |0...0> and multiplied by the returned phase, is the vector; the uncomputing circuit maps the vector to |0...0> up to the
    returned phase.  ("lsq_first": qubit 0 is the most significant bit of the amplitude index; "msq_first": the least significant.)"""
    import cmath
    from ..consteval import FuncVal
    from ..rules.circuitsem import module_resolver
    rule = "K9.state-preparation"
    cls = module_resolver(idx, SVF)("StateVector")
    if cls is None:
        raise AnalysisError("StateVector not resolvable")
    f = idx.function(f"{SVF}::StateVector.uncomputing_circuit")

    def folder():
        fo = cs.make_folder(idx, SVF, ctors={"Gate": None})
        fo.real_arrays = True
        fo.env["np.pi"] = math.pi
        return fo
    s2, s3 = 1 / math.sqrt(2), 1 / math.sqrt(3)
    vectors = [[0.6, 0.8], [0.6, -0.8j], [0, 1], [1, 0], [s2, s2 * 1j],
               [1, 0, 1j, 0], [0.5, 0.5j, -0.5, 0.5], [0, 0, 0, 1], [0, 1, 0, 0], [s2, 0, 0, -s2], [0.5, 0.5, 0.5, 0.5], [s3, 0, s3 * 1j, -s3], [0, s2, s2 * cmath.exp(0.3j), 0],
               [1, 0, 0, 0, 0, 0, 0, 1j], [0.5, 0, 0.5j, 0, -0.5, 0, 0, 0.5], [1, 1j, -1, -1j, 1, 1, 1, 1], [0, 0, 0, 0, 0, 1, 0, 0], [1, 0, 1j, 0, -1, 0, -1j, 0], [2, 1, 0, 1j, 0, 0, 3, -1],
               # relative phases of a peeling level that are non-zero but cancel in sum / in mean (seeded C20-10: a multiplexor skipped on `sum(angles) == 0`)
               [1, -1, -1, 1], [1, 1j, 1, -1j], [1, cmath.exp(0.3j), 1, cmath.exp(-0.3j)], [0, cmath.exp(0.3j), cmath.exp(-0.3j), 0],
               [1, cmath.exp(0.3j), 1, cmath.exp(-0.3j), 1, cmath.exp(0.5j), 1, cmath.exp(-0.5j)], [1, 1, 1, 1, 1, -1, -1, 1]]
    if tier == "thorough":
        vectors += [[(0.3 + 0.1 * k) * cmath.exp(0.7j * k * k) for k in range(8)], [1 if k % 3 == 0 else 0 for k in range(8)], [(-1) ** k * (k + 1) for k in range(4)],
                    [cmath.exp(1j * k) if k in (1, 6) else 0 for k in range(8)]]
    n = 0
    bad_i, bad_u = [], []
    for vec in vectors:
        v = np.array(vec, dtype=complex)
        v = v / np.linalg.norm(v)
        nq = int(round(math.log2(len(v))))
        for order in ("msq_first", "lsq_first"):
            tgt = v if order == "lsq_first" else v.reshape([2] * nq).transpose(list(range(nq))[::-1]).reshape(-1)
            try:
                sv = folder().instantiate(cls, [[complex(x) for x in v]], {"order": order})
                ci, phi = folder().call_funcval(FuncVal(sv.cls_val.methods["initializing_circuit"], bound_self=sv, home=SVF), [], {"return_phase": True})
                sv2 = folder().instantiate(cls, [[complex(x) for x in v]], {"order": order})
                cu, phu = folder().call_funcval(FuncVal(sv2.cls_val.methods["uncomputing_circuit"], bound_self=sv2, home=SVF), [], {"return_phase": True})
            except Undecidable as e:
                raise AnalysisError(f"StateVector not foldable for {vec}: {e}")
            except Raised as e:
                bad_i.append(f"{_fmt(vec)} ({order}): raises {e.exc_type}")
                continue
            n += 1
            out = numsem.circuit_unitary(ci.fields["_gates"], nq)[:, 0] * cmath.exp(1j * float(phi))
            if float(np.max(np.abs(out - tgt))) > 1e-9:
                bad_i.append(f"{_fmt(vec)} ({order}): prepares {_fmt(np.round(out, 4).tolist())}")
            back = numsem.circuit_unitary(cu.fields["_gates"], nq).dot(tgt) * cmath.exp(1j * float(phu))
            e0 = np.zeros(2 ** nq, dtype=complex)
            e0[0] = 1
            if float(np.max(np.abs(back - e0))) > 1e-9:
                bad_u.append(f"{_fmt(vec)} ({order}): uncomputes to {_fmt(np.round(back, 4).tolist())}")
    rep.decide(not bad_i, rule, f, f.node, text=f"initializing_circuit on {n} (vector, order) pairs: circuit |0..0> times the returned phase equals the vector",
               what="the state-initialisation circuit prepares the given amplitude vector exactly once the returned global phase is applied, in either qubit order",
               reason="; ".join(bad_i[:2]))
    rep.decide(not bad_u, rule, f, f.node, text=f"uncomputing_circuit on {n} (vector, order) pairs: the vector is mapped to |0..0> times the returned phase",
               what="the uncomputing circuit maps the vector back to |0...0> (up to the returned global phase)", reason="; ".join(bad_u[:2]))
    rep.floor("state preparations folded", n, 42)


def _fmt(v) -> str:
    return "[" + ", ".join(f"{complex(x):.3g}" for x in v) + "]"


def check_unitary_qubit_lists(idx: Index, rep: Report):
    """Standard phase estimation places its register right above the highest qubit the unitary reports and strips exactly the reported qubits from the measured
    histogram; what is left is read as the phase.  The two only fit together when the unitary reports EVERY qubit below the register: each implementation's
    constructor and qubit_indices() are folded on an input that skips a qubit below its highest one (a Hamiltonian without a term on qubit 1, a circuit whose
    gates leave qubit 1 idle) and the reported lists must be 0 .. max without a gap."""
    rule = "K9.qpe-register"
    TSU = "tangelo/toolboxes/unitary_generator/trotter_suzuki.py"
    UCF = "tangelo/toolboxes/unitary_generator/unitary_circuit.py"

    class _Op:
        _sa_model = True

        def __init__(self, terms):
            self.terms = dict(terms)

    class _Cw:
        _sa_model = True

        def __init__(self, width):
            self.width = width
            self._gates = []
    count = lambda a, k: max([i for t in a[0].terms for i, _ in t] + [-1]) + 1
    samples = [(TSU, "TrotterSuzukiUnitary", lambda: [_Op({((0, "Z"),): 0.25, ((2, "Z"),): 0.125, (): 0.5})], {"time": 1.0}, 3, "0.25 Z0 + 0.125 Z2 + 0.5"),
               (TSU, "TrotterSuzukiUnitary", lambda: [_Op({((1, "X"), (3, "X")): 0.5})], {"time": 1.0}, 4, "0.5 X1 X3"),
               (UCF, "CircuitUnitary", lambda: [_Cw(3)], {}, 3, "a circuit of width 3 with an idle qubit")]
    n = 0
    for rel, cname, args, kwargs, width, label in samples:
        cls = cs.module_resolver(idx, rel)(cname)
        if cls is None:
            raise AnalysisError(f"{cname} not resolvable")
        qi = idx.cls(f"{rel}::{cname}").methods["qubit_indices"]
        fo = cs.make_folder(idx, rel, ctors={"count_qubits": count})
        try:
            obj = fo.instantiate(cls, args(), dict(kwargs))
            state, anc = cs.make_folder(idx, rel).call_funcval(FuncVal(qi.node, bound_self=obj, home=rel), [], {})
        except (Undecidable, Raised) as e:
            raise AnalysisError(f"{cname} not foldable: {type(e).__name__} {e}")
        n += 1
        got = sorted(list(state) + list(anc))
        rep.decide(got == list(range(width)), rule, qi, qi.node, text=f"{cname} on {label}: reported qubits {got}",
                   what="a unitary reports every qubit below the place where phase estimation puts its register (the register starts above the highest reported qubit and "
                        "only the reported qubits are stripped from the histogram before the phase is read)",
                   reason=f"qubits {sorted(set(range(width)) - set(got))} below the register are not reported: their measured bits stay in front of the phase bits and the phase read "
                          f"is halved (or shifted by 1/2 when that qubit is in |1>)")
    rep.floor("unitary implementations folded for their qubit lists", n, 3)


def check_qpe_register(idx: Index, rep: Report, tier: str):
    """Standard phase estimation, the register logic: the statements of QPESolver.build that place the register and assemble Fourier transform, controlled
    powers and inverse transform are folded (get_qft_circuit from its own source; the controlled evolution replaced by its phase kickback on an eigenstate);
    the register is then propagated numerically for every phase that n bits represent exactly (n = 1..4), read the way QPESolver.simulate reads the histogram
    (register qubits in increasing index), and converted by the solver's own energy_estimation: the outcome is certain and spells the phase."""
    import cmath
    from ..consteval import Folder
    rule = "K9.qpe-register"
    cls = idx.cls(f"{QPE}::QPESolver")
    build = cls.methods["build"]
    read = cls.methods["energy_estimation"]
    body = build.node.body
    start = [i for i, st in enumerate(body) if isinstance(st, ast.Assign) and any("n_state" in norm(t) for t in st.targets)]
    if not start:
        raise AnalysisError("QPESolver.build: placement of the register (self.n_state, self.n_ancilla = ...) not found")
    n_cases = 0
    for n_bits in (1, 2, 3, 4):
        class _U(_KickUnitary):
            def qubit_indices(self):
                return (0,), ()
        me = Rec("QPESolver", {"unitary": _U(), "n_qpe_qubits": n_bits})
        fo = cs.make_folder(idx, QPE, ctors={"Circuit": lambda a, k: _Circ(*a, **k)})
        fo.env["np.pi"] = math.pi
        fo.env["self"] = me
        try:
            for st in body[start[0]:]:
                fo.stmt(st)
        except (Undecidable, Raised) as e:
            raise AnalysisError(f"QPESolver.build: register assembly not foldable: {type(e).__name__} {e}")
        circ = me.fields.get("circuit")
        reg = me.fields.get("qpe_qubit_list")
        if not isinstance(circ, _Circ) or not isinstance(reg, list) or sorted(reg) != list(range(1, n_bits + 1)):
            raise AnalysisError(f"QPESolver.build folded to circuit {circ!r}, register {reg!r}")
        nq = n_bits + 1
        bad = []
        for k in range(2 ** n_bits):
            phi = k / 2 ** n_bits
            state = np.zeros(2 ** nq, dtype=complex)
            state[0] = 1
            for g in circ._gates:
                if g.fields["name"] == "KICK":
                    q = g.fields["target"][0]
                    ph = cmath.exp(2j * math.pi * phi * float(g.fields["parameter"]))
                    state = np.array([a * (ph if (i >> (nq - 1 - q)) & 1 else 1) for i, a in enumerate(state)])
                else:
                    state = numsem.gate_unitary(g, nq).dot(state)
            probs = np.abs(state) ** 2
            top = int(np.argmax(probs))
            if probs[top] < 1 - 1e-9:
                bad.append(f"phase {phi}: most likely outcome has probability {probs[top]:.3f}")
                continue
            bits = "".join(str((top >> (nq - 1 - q)) & 1) for q in range(1, nq))       # histogram with the state qubit removed: register qubits in increasing index
            got = cs.make_folder(idx, QPE).run_function(read.node, {"self": Rec("QPESolver", {}), "bitstring": bits})
            if abs(float(got) - phi) > 1e-12:
                bad.append(f"phase {phi}: certain outcome {bits!r} is read as {float(got)}")
        n_cases += 2 ** n_bits
        rep.decide(not bad, rule, build, build.node, text=f"{n_bits}-bit register: all {2 ** n_bits} exactly representable eigenphases",
                   what="transform, controlled powers 2^i on the i-th register qubit and inverse transform fit together: on an eigenstate the register outcome is certain and, read "
                        "as the solver reads it, is the eigenphase", reason="; ".join(bad[:3]))
    rep.floor("QPE eigenphases propagated", n_cases, 30)
