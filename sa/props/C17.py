"""C17 Circuits and operators survive export/import round trips (structural part).

C17.a K4  writer o reader = identity over the folded name tables: for every Tangelo gate name a format's writer handles, the
          writer's dispatch chain is folded (restricted constant folder, operands are distinct marker constants) into the
          emitted record / text, which is then folded through the reader's chain; the reconstructed (name, target, control,
          parameter presence) must equal the original modulo CNOT == CX.  IonQ JSON and ProjectQ text (both directions are
          pure Python); OpenQASM reader against its table through a frozen model of OpenQASM 2 statement syntax.
C17.b K3/K5 refusal instead of silent alteration: every chain ends in a raise; a gate with two controls is either refused or
          comes back with both controls; a gate the writer accepts is not dropped by the reader
C17.c K4  Gate.__repr__ folded for representative gates parses back to a Gate(...) call whose keywords are constructor
          parameters carrying the original field values
C17.d K1  operator converters do not alias the input's `terms` dict into the output (INFO for formats not installed)
"""
from __future__ import annotations

import sympy as sp

import ast
import copy
from typing import Any, Dict, List, Optional, Tuple

from ..consteval import Folder, Opaque, Raised, Rec, Undecidable, make_gate
from ..index import AnalysisError, FunctionInfo, Index, norm, own_nodes
from ..report import Report
from ..rules import translators as tr
from ..rules.tables import fold_table

TDIR = "tangelo/linq/translator/"
GATE = "tangelo/linq/gate.py"

T_MARK, T2_MARK, C_MARK, C2_MARK, P_MARK = 3, 4, 5, 7, 0.25
# numeral classes a text format has to carry: plain decimal, negative with exponent notation, large with exponent notation, zero
P_MARKS = [0.25, -1.5e-05, 3e+16, 0.0]


class CircRec(Rec):
    def __init__(self, gates=None, n_qubits=None):
        gates = list(gates or [])
        idxs = [q for g in gates for q in (g.fields["target"] + (g.fields["control"] or []))]
        width = max(idxs) + 1 if idxs else 0
        if n_qubits:
            width = max(width, n_qubits)
        super().__init__("Circuit", {"_gates": gates, "width": width, "size": len(gates), "_qubits_simulated": n_qubits})

    def __add__(self, other):
        return CircRec(self.fields["_gates"] + other.fields["_gates"],
                       n_qubits=max(self.fields["width"], other.fields["width"]) if (self.fields["_qubits_simulated"] or other.fields["_qubits_simulated"]) else None)

    def __iter__(self):
        return iter(self.fields["_gates"])


def _norm_idx(v):
    if v is None:
        return None
    if isinstance(v, (list, tuple)):
        return list(v)
    return [v]


def _gate_ctor(args, kwargs):
    g = make_gate(args, kwargs)
    g.fields["target"] = _norm_idx(g.fields["target"])
    g.fields["control"] = _norm_idx(g.fields["control"])
    if g.fields["control"] is not None and isinstance(g.fields["name"], str) and not g.fields["name"].startswith("C"):
        raise Raised("ValueError", ast.Pass())
    return g


def _circ_ctor(args, kwargs):
    gates = args[0] if args else kwargs.get("gates")
    return CircRec(gates or [], n_qubits=kwargs.get("n_qubits", args[1] if len(args) > 1 else None))


def _add_gate(obj, args, kwargs):
    new = CircRec(obj.fields["_gates"] + [args[0]], n_qubits=obj.fields["_qubits_simulated"])
    obj.fields.update(new.fields)
    return None


CTORS = {"Gate": _gate_ctor, "Circuit": _circ_ctor, ("Circuit", "add_gate"): _add_gate}


def sample_gate(name: str, sets, n_controls=1, param=None) -> Rec:
    two = name in sets["TWO_TARGET_GATES"]
    tgt = [T_MARK, T2_MARK] if two else [T_MARK]
    ctl = None
    if name.startswith("C") and name not in ("CMEASURE",):
        ctl = [C_MARK] if n_controls == 1 else [C_MARK, C2_MARK]
    par = (P_MARK if param is None else param) if name in sets["PARAMETERIZED_GATES"] else ""
    return Rec("Gate", {"name": name, "target": tgt, "control": ctl, "parameter": par, "is_variational": False})


PERIODIC = {"RX", "RY", "RZ", "PHASE", "CPHASE", "XX", "CRX", "CRY", "CRZ"}


def same_gate(a: Rec, b: Rec) -> Tuple[bool, str]:
    eq = {"CNOT": "CX"}
    na, nb = eq.get(a.fields["name"], a.fields["name"]), eq.get(b.fields["name"], b.fields["name"])
    if na != nb:
        return False, f"name {a.fields['name']} comes back as {b.fields['name']}"
    if a.fields["target"] != b.fields["target"]:
        return False, f"target {a.fields['target']} comes back as {b.fields['target']}"
    if a.fields["control"] != b.fields["control"]:
        return False, f"control {a.fields['control']} comes back as {b.fields['control']}"
    pa, pb = a.fields["parameter"], b.fields["parameter"]
    if pb is None:
        pb = ""
    if (pa == "") != (pb == ""):
        return False, f"parameter {pa!r} comes back as {pb!r}"
    if pa != "":
        # equal as gates: angles agree modulo the gate's period (4 pi for controlled rotations, 2 pi otherwise) - what Gate.__eq__ calls equal
        import math
        period = 4 * math.pi if na in ("CRX", "CRY", "CRZ") else 2 * math.pi
        fa, fb = float(sp.N(sp.sympify(pa), 30)), float(sp.N(sp.sympify(pb), 30))
        tol = 1e-12 * max(1.0, abs(fa))
        exact = abs(fa - fb) <= tol
        if not exact and (na not in PERIODIC or abs(math.remainder(fa - fb, period)) > 1e-9 * max(1.0, abs(fa) * 1e-3)):
            return False, f"parameter {pa!r} comes back as {pb!r}"
    return True, ""


def run(idx: Index, rep: Report, tier: str):
    rep.explain("C17 structural part: per gate name, the writer's dispatch chain is folded into the emitted record/text and that is "
                "folded through the reader's chain (sa.consteval, operands are marker constants); reconstructed name, qubits and "
                "parameter presence must equal the original. Chains must end in a raise; two-control gates must be refused or "
                "preserved; Gate.__repr__ folded and re-parsed against Gate.__init__'s signature.")
    rep.trust("CPython ast", "sa.consteval folding subset (includes constant folding of re.split/findall/sub on constant strings)",
              "OpenQASM 2 statement syntax model: `name(params) q[i],q[j];`, controls listed before targets")
    rep.assume("number formatting of arbitrary floats through text formats is not decided (marker constants only)",
               "qiskit / braket object translators cannot be folded (foreign objects): table and branch agreement only")
    from .C09 import gate_sets
    sets = gate_sets(idx)
    check_ionq(idx, rep, sets)
    check_projectq(idx, rep, sets)
    check_openqasm_reader(idx, rep, sets)
    check_chains_end_in_raise(idx, rep, tier)
    check_repr(idx, rep, sets)
    check_object_translators(idx, rep, tier)
    check_operator_converters(idx, rep)


# ---------------------------------------------------------------------------------------------------
def _fold_fn(f: FunctionInfo, args: Dict[str, Any], extra_env=None):
    fo = Folder(env=dict(extra_env or {}), ctors=CTORS, opaque_unknown=False)
    # module-level helpers (table builders) are folded on demand
    mod = f.module
    for name, g in mod.functions.items():
        if "." not in name and name.startswith("get_") and name.endswith("_gates"):
            tfo = Folder(opaque_unknown=True)
            fo.env[name] = None
            table = tfo.run_function(g.node, {})
            fo.ctors[name] = (lambda a, k, table=table: dict(table))
    fo.env.setdefault("re", Opaque("re"))
    return fo.run_function(f.node, args)


def _roundtrip(rep: Report, rule: str, fmt: str, writer: FunctionInfo, reader: FunctionInfo, g: Rec, label: str, multi=False):
    circ = CircRec([copy.deepcopy(g)], n_qubits=None)
    where = writer
    try:
        out = _fold_fn(writer, {"source_circuit": circ})
    except Raised as r:
        if multi:
            rep.ok(rule, writer, r.node, text=f"{fmt}: {label} refused by the writer", what="a gate the format cannot express is refused")
        return "refused"
    except Undecidable as u:
        raise AnalysisError(f"{writer.ref}: not foldable for {label}: {u}")
    rparam = reader.positional[0]
    try:
        back = _fold_fn(reader, {rparam: out})
    except Raised as r:
        rep.violation(rule, reader, r.node, text=f"{fmt}: {label} exported, import raises {r.exc_type}",
                      what=f"what the {fmt} writer emits for a supported gate is accepted by the {fmt} reader",
                      reason=f"writer emits {str(out)[-80:]!r} for {label}; the reader raises {r.exc_type} on it")
        return "reader-raises"
    except Undecidable as u:
        raise AnalysisError(f"{reader.ref}: not foldable for {label}: {u}")
    if not isinstance(back, Rec) or back.cls != "Circuit":
        raise AnalysisError(f"{reader.ref}: folded result is not a circuit: {back!r}")
    gates = back.fields["_gates"]
    if len(gates) != 1:
        rep.violation(rule, reader, reader.node, text=f"{fmt}: {label} comes back as {len(gates)} gates",
                      what="export followed by import returns the same gate list",
                      reason=f"{label} is exported as {str(out)[-60:]!r} but the reader returns {len(gates)} gate(s): the gate is silently dropped")
        return "dropped"
    ok, why = same_gate(g, gates[0])
    if ok:
        rep.ok(rule, writer, writer.node, text=f"{fmt}: {label} round trip", what="export followed by import returns an equal gate")
        # width is carried by formats that record it
        return "ok"
    rep.violation(rule, writer, writer.node, text=f"{fmt}: {label} round trip",
                  what="export followed by import returns an equal gate (same name up to CNOT=CX, qubits, parameter)", reason=why)
    return "mismatch"


def _check_format(idx, rep, sets, fmt, wname, rname, relfile):
    rule = "K4.roundtrip"
    writer = idx.function(f"{TDIR}{relfile}::{wname}")
    reader = idx.function(f"{TDIR}{relfile}::{rname}")
    d = tr.extract_writer(writer)
    if d is None:
        raise AnalysisError(f"{writer.ref}: dispatch chain not recognised")
    n = 0
    for name in sorted(d.all_names()):
        g = sample_gate(name, sets)
        _roundtrip(rep, rule, fmt, writer, reader, g, name)
        n += 1
        if g.fields["parameter"] != "":
            for pm in P_MARKS[1:]:
                _roundtrip(rep, rule, fmt, writer, reader, sample_gate(name, sets, param=pm), f"{name}({pm!r})")
        if g.fields["control"] is not None:
            g2 = sample_gate(name, sets, n_controls=2)
            r = _roundtrip(rep, "K5.multi-control", fmt, writer, reader, g2, f"{name} with two controls", multi=True)
    return n


def check_ionq(idx, rep, sets):
    n = _check_format(idx, rep, sets, "ionq", "translate_c_to_json_ionq", "translate_c_from_json_ionq", "translate_json_ionq.py")
    rep.floor("ionq names round-tripped", n, 20)
    _check_width(idx, rep, sets, "ionq", "translate_c_to_json_ionq", "translate_c_from_json_ionq", "translate_json_ionq.py")


def _check_width(idx, rep, sets, fmt, wname, rname, relfile):
    """width clause: a circuit on a register larger than its highest used qubit (idle top qubits), and an empty circuit on a fixed register, come back with
    the same width - both directions folded, nothing matched by spelling"""
    rule = "K4.roundtrip"
    writer = idx.function(f"{TDIR}{relfile}::{wname}")
    reader = idx.function(f"{TDIR}{relfile}::{rname}")
    for label, gates, nq in (("one gate on qubit 1 of a 4-qubit register", [sample_gate("H", sets)], 4), ("empty circuit on a 3-qubit register", [], 3)):
        gl = [copy.deepcopy(g) for g in gates]
        for g in gl:
            g.fields["target"] = [1]
        circ = CircRec(gl, n_qubits=nq)
        try:
            out = _fold_fn(writer, {"source_circuit": circ})
            back = _fold_fn(reader, {reader.positional[0]: out})
        except Raised as r:
            rep.violation(rule, writer, r.node, text=f"{fmt}: {label}", what="the circuit width survives the round trip", reason=f"raises {r.exc_type}")
            continue
        except Undecidable as u:
            raise AnalysisError(f"{fmt}: width round trip not foldable: {u}")
        if not isinstance(back, Rec) or back.cls != "Circuit":
            raise AnalysisError(f"{reader.ref}: folded result is not a circuit: {back!r}")
        rep.decide(back.fields["width"] == nq and len(back.fields["_gates"]) == len(gl), rule, reader, reader.node, text=f"{fmt}: width of {label}",
                   what="export followed by import returns a circuit of the same width (idle qubits of the register included)",
                   reason=f"a circuit of width {nq} comes back with width {back.fields['width']}")


def check_projectq(idx, rep, sets):
    n = _check_format(idx, rep, sets, "projectq", "translate_c_to_projectq", "translate_c_from_projectq", "translate_projectq.py")
    rep.floor("projectq names round-tripped", n, 12)
    _check_width(idx, rep, sets, "projectq", "translate_c_to_projectq", "translate_c_from_projectq", "translate_projectq.py")


def check_openqasm_reader(idx, rep, sets):
    """reader against its own table, through a frozen model of OpenQASM 2 statements"""
    rule = "K4.roundtrip"
    table = fold_table(idx, "openqasm")
    reader = idx.function(f"{TDIR}translate_openqasm.py::translate_c_from_openqasm")
    n = 0
    for name, token in sorted(table.items()):
        g = sample_gate(name, sets)
        qubits = (g.fields["control"] or []) + g.fields["target"]
        qs = ",".join(f"q[{q}]" for q in qubits)
        par = f"({g.fields['parameter']})" if g.fields["parameter"] != "" else ""
        if name == "MEASURE":
            stmt = f"measure q[{T_MARK}] -> c[{T_MARK}];"
        else:
            stmt = f"{token}{par} {qs};"
        prog = f'OPENQASM 2.0;\ninclude "qelib1.inc";\nqreg q[8];\ncreg c[8];\n{stmt}\n'
        n += 1
        try:
            back = _fold_fn(reader, {reader.positional[0]: prog})
        except Raised as r:
            rep.violation(rule, reader, r.node, text=f"openqasm: {name} ('{stmt}') import raises {r.exc_type}",
                          what="every gate of the OpenQASM table is accepted by the reader", reason=f"reader raises {r.exc_type} on '{stmt}'")
            continue
        except Undecidable as u:
            raise AnalysisError(f"{reader.ref}: not foldable for {name}: {u}")
        gates = back.fields["_gates"]
        if len(gates) != 1:
            rep.violation(rule, reader, reader.node, text=f"openqasm: {name} read as {len(gates)} gates", what="one statement gives one gate",
                          reason=f"'{stmt}' read as {len(gates)} gates")
            continue
        ok, why = same_gate(g, gates[0])
        rep.decide(ok, rule, reader, reader.node, text=f"openqasm: '{stmt}' -> {name}",
                   what="an OpenQASM statement of the table is read back as the Tangelo gate it stands for (controls first)", reason=why)
    rep.floor("openqasm table rows", n, 18)
    # writer delegates to qiskit (reasoned exception: cannot be folded)
    w = idx.function(f"{TDIR}translate_openqasm.py::translate_c_to_openqasm")
    ok = any(isinstance(c, ast.Call) and norm(c.func) == "translate_c_to_qiskit" for c in own_nodes(w.node))
    rep.decide(ok, rule, w, w.node, text="openqasm writer = qiskit translation + .qasm()", what="the OpenQASM writer goes through the qiskit translator",
               reason="writer no longer delegates to the qiskit translator; its own dispatch is not modelled")


def check_chains_end_in_raise(idx, rep, tier):
    rule = "K3.refusal"
    fmts_in = {"json_ionq", "projectq", "openqasm", "qiskit", "braket"}
    n = 0
    for d in tr.writer_dispatches(idx) + tr.reader_dispatches(idx):
        if d.fmt not in fmts_in:
            continue
        n += 1
        rep.decide(d.ends_in_raise(), rule, d.func, d.chain, text=f"{d.func.name}: chain ends in raise",
                   what="a gate the format cannot express is refused, not silently dropped", reason="no final else: raise")
    rep.floor("C17 chains", n, 8)


# ---------------------------------------------------------------------------------------------------
def check_repr(idx, rep, sets):
    rule = "K4.repr-eval"
    f = idx.function(f"{GATE}::Gate.__repr__")
    init = idx.function(f"{GATE}::Gate.__init__")
    params = init.positional[1:]
    samples = [
        Rec("Gate", {"name": "H", "target": [2], "control": None, "parameter": "", "is_variational": False}),
        Rec("Gate", {"name": "RX", "target": [0], "control": None, "parameter": 0.5, "is_variational": True}),
        Rec("Gate", {"name": "CRZ", "target": [1], "control": [0, 3], "parameter": -1.25, "is_variational": False}),
        Rec("Gate", {"name": "RY", "target": [4], "control": None, "parameter": "alpha", "is_variational": False}),
        Rec("Gate", {"name": "RY", "target": [4], "control": None, "parameter": "it's", "is_variational": False}),
        Rec("Gate", {"name": "RX", "target": [0], "control": None, "parameter": 'a"b\\c', "is_variational": True}),
        Rec("Gate", {"name": "CSWAP", "target": [1, 2], "control": [0], "parameter": "", "is_variational": False}),
        Rec("Gate", {"name": "X", "target": [0], "control": None, "parameter": "", "is_variational": False}),
        Rec("Gate", {"name": "RZ", "target": [1], "control": None, "parameter": 0.0, "is_variational": False}),
        Rec("Gate", {"name": "PHASE", "target": [0], "control": None, "parameter": 0, "is_variational": True}),
        Rec("Gate", {"name": "CRX", "target": [2], "control": [0], "parameter": -2.5e-07, "is_variational": False}),
        Rec("Gate", {"name": "XX", "target": [0, 3], "control": None, "parameter": 1e+20, "is_variational": False}),
    ]
    for g in samples:
        fo = Folder(ctors=CTORS)
        try:
            s = fo.run_function(f.node, {"self": g})
        except (Undecidable, Raised) as e:
            raise AnalysisError(f"Gate.__repr__ not foldable: {e}")
        label = f"repr({g.fields['name']}, t={g.fields['target']}, c={g.fields['control']}, p={g.fields['parameter']!r}, v={g.fields['is_variational']})"
        try:
            tree = ast.parse(s, mode="eval").body
        except SyntaxError:
            rep.violation(rule, f, f.node, text=label, what="the printed representation is a valid Python expression", reason=f"repr gives {s!r}")
            continue
        ok = isinstance(tree, ast.Call) and norm(tree.func) == "Gate" and not tree.args
        got = {}
        if ok:
            for k in tree.keywords:
                if k.arg not in params:
                    ok = False
                    break
                try:
                    got[k.arg] = ast.literal_eval(k.value)
                except Exception:
                    ok = False
        why = f"repr gives {s!r}"
        if ok:
            rebuilt = _gate_ctor([], got)
            want = copy.deepcopy(g)
            same = rebuilt.fields["name"] == want.fields["name"] and rebuilt.fields["target"] == want.fields["target"] and \
                rebuilt.fields["control"] == want.fields["control"] and rebuilt.fields["parameter"] == want.fields["parameter"] and \
                bool(rebuilt.fields["is_variational"]) == bool(want.fields["is_variational"])
            ok = same
            if not same:
                why = f"repr gives {s!r}, which rebuilds {rebuilt!r}"
        rep.decide(ok, rule, f, f.node, text=label, what="evaluating the printed representation recreates an equal gate "
                   "(keywords are constructor parameters and carry the gate's fields)", reason=why)


# ---------------------------------------------------------------------------------------------------
def _qubit_positions(d: tr.Dispatch, br: tr.Branch) -> Optional[List[str]]:
    """order of C / T operands among the qubit arguments of the emitted call of a writer branch"""
    for st in br.body:
        for c in ast.walk(st):
            if isinstance(c, ast.Call):
                seq = []
                for a in list(c.args) + [k.value for k in c.keywords]:
                    t = norm(a)
                    if f"{d.var}.control" in t:
                        seq.append("C")
                    elif f"{d.var}.target[0]" in t:
                        seq.append("T0")
                    elif f"{d.var}.target[1]" in t:
                        seq.append("T1")
                if seq:
                    return seq
    return None


def check_object_translators(idx, rep, tier):
    """qiskit / braket: writer and reader are both present but handle foreign objects; decided: the reader rebuilds
    control/target from the positions in which the writer passed them"""
    rule = "K4.object-translators"
    for fmt, file in (("qiskit", "translate_qiskit.py"), ("braket", "translate_braket.py")):
        w = tr.extract_writer(idx.function(f"{TDIR}{file}::translate_c_to_{fmt}"))
        r = tr.extract_reader(idx.function(f"{TDIR}{file}::translate_c_from_{fmt}"))
        if w is None or r is None:
            raise AnalysisError(f"{fmt}: dispatch chains not recognised")
        for br in w.branches:
            seq = _qubit_positions(w, br)
            if not seq or "C" not in seq:
                continue
            for name in sorted(br.names):
                rb = [b for b in r.branches if name in b.names]
                if not rb:
                    if fmt == "braket" and name in ("CRZ",):
                        rep.info(rule, r.func, r.chain, text=f"{fmt}: {name} not read back", reason="braket CRZ is emitted as two phase shifts; reader has no CRZ branch")
                    else:
                        rep.info(rule, r.func, r.chain, text=f"{fmt}: {name} not read back", reason="writer handles it, reader has no branch")
                    continue
                body = " ".join(norm(s) for s in rb[0].body)
                # control must be read from qubit position = index of C in writer's order, target from the position(s) after
                ci = seq.index("C")
                if fmt == "qiskit":
                    ok = f"control=qi[gate.qubits[{ci}]].index" in body
                else:
                    ok = f"control=qubits[{ci}]" in body
                if ok:
                    rep.ok(rule, r.func, rb[0].node, text=f"{fmt}: {name} control read from position {ci}", what="the reader takes the control from the position the writer put it in")
                else:
                    rep.info(rule, r.func, rb[0].node, text=f"{fmt}: {name} control position", reason=f"writer order {seq}, reader body {body[:80]}")


def check_operator_converters(idx, rep):
    rule = "K1.operator-alias"
    for file, fn in (("translate_projectq.py", "translate_op_to_projectq"), ("translate_projectq.py", "translate_op_from_projectq")):
        f = idx.function(f"{TDIR}{file}::{fn}")
        shares = [n for n in own_nodes(f.node) if isinstance(n, ast.Assign) and norm(n.targets[0]).endswith(".terms") and norm(n.value) == "qubit_operator.terms"]
        if shares:
            rep.info(rule, f, shares[0], text=f"{fn}: output shares the input's terms dict",
                     reason="the converted operator aliases the input's terms (projectq is not installed: outside the decided quantifier)")
        else:
            rep.ok(rule, f, f.node, text=f"{fn}: terms copied", what="converted operator does not alias the input")
    # cirq -> tangelo, folded on a stand-in PauliSum with symbolic complex coefficients and multi-digit qubit indices
    f = idx.function(f"{TDIR}translate_cirq.py::translate_op_from_cirq")
    from ..consteval import Opaque
    from ..rules.circuitsem import make_folder
    import sympy as sp

    class _LQ:
        _sa_model = True

        def __init__(self, x):
            self.x = x

        def __eq__(self, o):
            return isinstance(o, _LQ) and o.x == self.x

        def __hash__(self):
            return hash(("LineQubit", self.x))

    class _PSum:
        """stand-in for cirq.PauliSum: iterates over its Pauli strings; .qubits is the sorted tuple of the qubits some string acts on (cirq's definition)"""
        _sa_model = True

        def __init__(self, strings):
            self._s = list(strings)

        def __iter__(self):
            return iter(self._s)

        def __len__(self):
            return len(self._s)

        @property
        def qubits(self):
            return tuple(_LQ(q) for q in sorted({q for ps in self._s for q, _ in ps._f}))

    class _PStr:
        _sa_model = True

        def __init__(self, factors, coefficient):
            self._f, self.coefficient = factors, coefficient

        def items(self):
            return [(_LQ(q), Opaque(f"cirq.{p}")) for q, p in self._f]

    class _QOpS:
        """stand-in for QubitOperator built from a term string such as 'X0 Z12'"""
        _sa_model = True

        def __init__(self, term=None, coefficient=1):
            self.terms = {}
            if term is not None:
                if isinstance(term, str):
                    key = tuple(sorted((int(t[1:]), t[0]) for t in term.split()))
                else:
                    key = tuple(term)
                self.terms[key] = coefficient

        def __add__(self, o):
            r = _QOpS()
            r.terms = dict(self.terms)
            for k, v in o.terms.items():
                r.terms[k] = r.terms.get(k, 0) + v
            return r
        __iadd__ = __add__
    c1, c2, c3 = sp.Symbol("c1"), sp.Symbol("c2"), sp.Symbol("c3")        # complex coefficients
    words = [([(0, "X"), (12, "Z")], c1), ([(3, "Y")], c2), ([], c3), ([(1, "Z"), (2, "X"), (10, "Y")], 2 + 3 * sp.I)]
    want = {tuple(sorted(w)): c for w, c in words}
    fo = make_folder(idx, f"{TDIR}translate_cirq.py", ctors={"QubitOperator": lambda a, k: _QOpS(*a, **k)})
    fo.env["cirq"] = Opaque("cirq")
    try:
        got = fo.run_function(f.node, {"qubit_operator": _PSum(_PStr(w, c) for w, c in words)})
    except (Undecidable, Raised) as e:
        raise AnalysisError(f"translate_op_from_cirq not foldable: {e}")
    gt = got.terms if isinstance(got, _QOpS) else {}
    bad = [k for k in set(gt) | set(want) if sp.simplify(sp.sympify(gt.get(k, 0)) - want.get(k, 0)) != 0]
    rep.decide(not bad, "K4.operator-roundtrip", f, f.node, text="cirq PauliSum -> QubitOperator: every word keeps its letters, qubit indices and its (complex) coefficient",
               what="each cirq Pauli becomes its own letter on its own qubit and each word keeps its coefficient, imaginary part included",
               reason=f"word {bad[0] if bad else ''}: got {gt.get(bad[0]) if bad else ''}, expected {want.get(bad[0]) if bad else ''}")
