"""C14 Qubit-reduction techniques keep the eigenvalue they are meant to keep (two structural clauses; the remainder is not decided).

C14.a K11 resolved API: every numpy attribute used by the tapering / operator modules exists in the *installed* numpy (resolved from
          numpy's own stub file).  A removed attribute makes the whole feature raise for every input.
C14.b K9  decision table of trim_trivial_circuit: every leaf that declares a qubit to be in |0> or |1> is validated with exact 2x2 algebra
          for every gate combination admitted by the path conditions (Z-type gates: RZ(theta) symbolic and Z; flips: X and RX at odd
          multiples of pi); coefficient rule of trim_trivial_operator: X/Y on a trimmed qubit drops the term, Z on |1> flips the sign
C14.c     informational: identity comparison with an array in the tapering routine (filter dead)
"""
from __future__ import annotations

import ast
import itertools
from typing import Dict, List, Optional, Set, Tuple

import sympy as sp

from ..index import AnalysisError, FunctionInfo, Index, const_str_set, full, norm, own_nodes
from ..report import Report
from ..rules.npapi import check_numpy_api
from .. import symx

TRIM = "tangelo/toolboxes/operators/trim_trivial_qubits.py"
FILES = ["tangelo/toolboxes/operators/multiformoperator.py", "tangelo/toolboxes/operators/z2_tapering.py", "tangelo/toolboxes/operators/taper_qubits.py",
         "tangelo/helpers/math.py", TRIM]
Z2T = "tangelo/toolboxes/operators/z2_tapering.py"


def run(idx: Index, rep: Report, tier: str):
    rep.explain("C14, two structural clauses: existence of every numpy attribute used by the tapering modules in the installed numpy; exact "
                "validation, leaf by leaf, of the decision table that classifies idle / flipped / phase-only qubits, and of the coefficient "
                "rule applied to operators on trimmed qubits.")
    rep.trust("CPython ast", "numpy/__init__.pyi of the installed numpy", "sympy exact 2x2 algebra")
    rep.assume("kernel computation, the choice of Clifford rotations, spectra of tapered operators and the truncation bound are numerical facts and are not decided")
    check_numpy_api(idx, rep, FILES, rule="K11.numpy-api")
    check_trim_table(idx, rep)
    check_trim_operator(idx, rep)
    check_bitflip_predicate(idx, rep)
    f = idx.function(f"{Z2T}::get_z2_taper_function.do_taper") if idx.has_function(f"{Z2T}::get_z2_taper_function.do_taper") else None
    for fn in idx.module_by_relpath(Z2T).functions.values():
        for n in own_nodes(fn.node):
            if isinstance(n, ast.Compare) and isinstance(n.ops[0], (ast.Is, ast.IsNot)) and isinstance(n.comparators[0], ast.Constant) and isinstance(n.comparators[0].value, bool) \
                    and isinstance(n.left, ast.Name):
                rep.violation("K12.identity-on-array", fn, n, text=norm(n), what="boolean masks are tested element-wise, not by identity", reason="`array is False` is an identity test on the array object (always False); inside np.where it makes NumPy 2 raise for every input (NumPy 1: the filter selected nothing)")


# ---------------------------------------------------------------------------------------------------
ZTYPE = {"Z", "RZ"}
FLIP = {"X", "RX"}


def _gate_variants(name: str, flip_checked: bool) -> List[Tuple[str, sp.Matrix]]:
    th = sp.Symbol("theta", real=True)
    if name == "Z":
        return [("Z", symx.Z)]
    if name == "RZ":
        return [("RZ(theta)", symx.RZ(th))]
    if name == "X":
        return [("X", symx.X)]
    if name == "Y":
        return [("Y", symx.Y)]
    if name == "RX":
        if flip_checked:
            return [("RX(pi)", symx.RX(sp.pi)), ("RX(3pi)", symx.RX(3 * sp.pi)), ("RX(-pi)", symx.RX(-sp.pi))]
        return [("RX(theta)", symx.RX(th))]
    if name == "RY":
        if flip_checked:
            return [("RY(pi)", symx.RY(sp.pi)), ("RY(3pi)", symx.RY(3 * sp.pi))]
        return [("RY(theta)", symx.RY(th))]
    raise AnalysisError(f"trim table: gate name {name} not modelled")


def _state_is(vec: sp.Matrix, s: int) -> bool:
    other = sp.simplify(vec[1 - s])
    mine = sp.simplify(sp.Abs(vec[s]))
    return other == 0 and sp.simplify(mine - 1) == 0


def check_trim_table(idx: Index, rep: Report):
    rule = "K9.trim-table"
    f = idx.function(f"{TRIM}::trim_trivial_circuit")
    loops = [n for n in own_nodes(f.node) if isinstance(n, ast.For) and "circs" in norm(n.iter)]
    if not loops:
        raise AnalysisError("trim_trivial_circuit: loop over circuit components not found")
    leaves = []

    def walk(stmts, cons):
        for st in stmts:
            if isinstance(st, ast.If):
                t = st.test
                c_true, c_false = dict(cons), dict(cons)
                parts = t.values if isinstance(t, ast.BoolOp) and isinstance(t.op, ast.And) else [t]
                understood = True
                for p in parts:
                    tp = norm(p)
                    if isinstance(p, ast.Compare) and norm(p.left) == "circ.size" and isinstance(p.ops[0], ast.Eq):
                        c_true["size"] = ast.literal_eval(p.comparators[0])
                    elif isinstance(p, ast.Compare) and norm(p.left) in ("gate0.name", "gate1.name") and isinstance(p.ops[0], ast.In):
                        c_true[norm(p.left)[:5]] = set(const_str_set(p.comparators[0]))
                    elif tp in ("gate_0_is_bitflip", "gate_1_is_bitflip"):
                        c_true["flip" + tp[5]] = True
                    else:
                        understood = False
                if understood:
                    walk(st.body, c_true)
                walk(st.orelse, c_false if len(parts) == 1 else cons)
            elif isinstance(st, ast.Assign) and isinstance(st.targets[0], ast.Subscript) and norm(st.targets[0].value) == "trim_states" and isinstance(st.value, ast.Constant):
                leaves.append((dict(cons), st.value.value, st))
    walk(loops[0].body, {})
    rep.floor("trim table leaves", len(leaves), 5)
    ket0 = sp.Matrix([1, 0])
    for cons, state, st in leaves:
        size = cons.get("size")
        if size not in (1, 2) or "gate0" not in cons or (size == 2 and "gate1" not in cons):
            raise AnalysisError(f"trim table leaf at line {st.lineno}: path condition not understood: {cons}")
        seqs = []
        g0s = sorted(cons["gate0"])
        g1s = sorted(cons["gate1"]) if size == 2 else [None]
        bad = []
        n_combo = 0
        for a in g0s:
            for b in g1s:
                va = _gate_variants(a, cons.get("flip0", False))
                vb = _gate_variants(b, cons.get("flip1", False)) if b else [("", sp.eye(2))]
                for (la, ma), (lb, mb) in itertools.product(va, vb):
                    n_combo += 1
                    vec = sp.simplify(mb * ma * ket0)
                    if not _state_is(vec, state):
                        bad.append(f"{la}{' then ' + lb if lb else ''} -> {list(vec)}")
        rep.decide(not bad, rule, f, st, text=f"size {size}, gate0 in {g0s}{', gate1 in ' + str(g1s) if size == 2 else ''}"
                   f"{', flips checked' if cons.get('flip0') or cons.get('flip1') else ''} => |{state}>  ({n_combo} combinations)",
                   what=f"every gate sequence admitted by this branch leaves the qubit in |{state}> up to a phase",
                   reason=f"branch declares |{state}> but: {bad[:2]}")
    # idle qubits (no gate at all) are declared |0>
    idle = [n for n in own_nodes(f.node) if isinstance(n, ast.For) and "set(range(circuit.width)) - used_qubits" in norm(n.iter)]
    ok = bool(idle) and any(isinstance(s, ast.Assign) and norm(s.targets[0]) == "trim_states[qubit_idx]" and norm(s.value) == "0" for s in idle[0].body)
    rep.decide(ok, rule, f, idle[0] if idle else f.node, text="qubits without any gate => |0>", what="a qubit no gate acts on stays in |0>", reason="idle-qubit rule changed")
    # components that are not single-qubit circuits of 1-2 gates are kept
    keep = [n for n in ast.walk(loops[0]) if isinstance(n, ast.If) and norm(n.test) == "circ_width != 1 or circ.size not in (1, 2)"]
    ok = bool(keep) and "circuit_new += circ" in full(keep[0]) and any(isinstance(s, ast.Continue) for s in keep[0].body)
    rep.decide(ok, rule, f, keep[0] if keep else f.node, text="anything but a single-qubit component of one or two gates is kept", what="only components the table can classify are removed",
               reason="keep rule changed")


def check_bitflip_predicate(idx: Index, rep: Report):
    rule = "K9.trim-table"
    f = idx.function(f"{TRIM}::is_bitflip_gate")
    rets = [n for n in own_nodes(f.node) if isinstance(n, ast.Return) and "parameter_float" in norm(n.value)]
    ok = False
    if rets:
        t = norm(rets[0].value).replace(" ", "")
        ok = t in ("abs(parameter_float%(np.pi*2)-np.pi)<=atol", "abs(parameter_float%(2*np.pi)-np.pi)<=atol")
    rep.decide(ok, rule, f, rets[0] if rets else f.node, text="rotation is a flip iff angle = pi (mod 2 pi) within tolerance", what="RX/RY flip the qubit exactly at odd multiples of pi",
               reason=f"predicate {norm(rets[0].value) if rets else '?'}")
    names = [const_str_set(n.comparators[0]) for n in own_nodes(f.node) if isinstance(n, ast.Compare) and norm(n.left) == "gate.name" and isinstance(n.ops[0], ast.In)]
    ok = names == [frozenset({"X", "Y"}), frozenset({"RX", "RY"})]
    rep.decide(ok, rule, f, f.node, text="flip gates: X, Y always; RX, RY at odd multiples of pi", what="only X/Y-type gates can flip a basis state", reason=f"name sets {names}")


def check_trim_operator(idx: Index, rep: Report):
    rule = "K9.trim-operator"
    f = idx.function(f"{TRIM}::trim_trivial_operator")
    loop = [n for n in ast.walk(f.node) if isinstance(n, ast.For) and "trim_states.keys()" in norm(n.iter)]
    if not loop:
        raise AnalysisError("trim_trivial_operator: loop over trimmed qubits not found")
    chain = [s for s in loop[0].body if isinstance(s, ast.If)]
    ok = False
    if chain:
        c = chain[0]
        first = norm(c.test) == "term[qubit] in {'X', 'Y'}" or norm(c.test) == "term[qubit] in {'Y', 'X'}"
        zero = any(isinstance(s, ast.Assign) and norm(s.targets[0]) == "c[i]" and norm(s.value) == "0" for s in c.body) and any(isinstance(s, ast.Break) for s in c.body)
        second = len(c.orelse) == 1 and isinstance(c.orelse[0], ast.If) and norm(c.orelse[0].test) == "(term[qubit], trim_states[qubit]) == ('Z', 1)" and \
            any(isinstance(s, ast.Assign) and norm(s.targets[0]) == "c[i]" and norm(s.value) == "-1" for s in c.orelse[0].body)
        ok = first and zero and second
    rep.decide(ok, rule, f, chain[0] if chain else f.node, text="<0|X|0> = <1|Y|1> = 0 drops the term; <1|Z|1> = -1; <0|Z|0> = <s|I|s> = +1",
               what="a factor on a trimmed qubit is replaced by its expectation value in the qubit's basis state", reason="coefficient rule changed")
    t = full(f.node)
    ok = "c = np.ones(len(trim_states))" in t and "if 0 in c: continue" in t and "np.prod(c) * coeff" in t
    rep.decide(ok, rule, f, f.node, text="coefficient = product of the factors' expectation values * coefficient; zero products dropped", what="the new coefficient is the old one times the product of the expectation values",
               reason="coefficient assembly changed")
    ok = "new_term[:qubit - i] + new_term[qubit - i + 1:] if reindex else new_term[:qubit] + 'I' + new_term[qubit + 1:]" in t
    rep.decide(ok, rule, f, f.node, text="trimmed position removed (re-indexing) or replaced by I", what="the trimmed qubit disappears from the word (positions shift down by the number of qubits already removed)",
               reason="word update changed")
    g = idx.function(f"{TRIM}::trim_trivial_qubits")
    t = full(g.node)
    ok = "trimmed_circuit, trim_states = trim_trivial_circuit(circuit)" in t and "trim_trivial_operator(operator, trim_states, circuit.width, reindex=True)" in t
    rep.decide(ok, rule, g, g.node, text="operator trimmed with the states found for the circuit, on the circuit's width", what="operator and circuit are trimmed consistently", reason="wiring changed")
