"""C14 Qubit-reduction techniques keep the eigenvalue they are meant to keep (two structural clauses; the remainder is not decided).

C14.a K11 resolved API: every numpy attribute used by the tapering / operator modules exists in the *installed* numpy (resolved from
          numpy's own stub file).  A removed attribute makes the whole feature raise for every input.
C14.b K9  decision table of trim_trivial_circuit: every leaf that declares a qubit to be in |0> or |1> is validated with exact 2x2 algebra
          for every gate combination admitted by the path conditions (Z-type gates: RZ(theta) symbolic and Z; flips: X and RX at odd
          multiples of pi); coefficient rule of trim_trivial_operator: X/Y on a trimmed qubit drops the term, Z on |1> flips the sign
C14.c     informational: identity comparison with an array in the tapering routine (filter dead)
"""
from __future__ import annotations

import ast
import itertools
from typing import Dict, List, Optional, Set, Tuple

import sympy as sp

from ..index import AnalysisError, FunctionInfo, Index, const_str_set, full, norm, own_nodes
from ..report import Report
from ..rules.npapi import check_numpy_api
from ..rules import circuitsem as cs
from .. import symx

TRIM = "tangelo/toolboxes/operators/trim_trivial_qubits.py"
FILES = ["tangelo/toolboxes/operators/multiformoperator.py", "tangelo/toolboxes/operators/z2_tapering.py", "tangelo/toolboxes/operators/taper_qubits.py",
         "tangelo/helpers/math.py", TRIM]
Z2T = "tangelo/toolboxes/operators/z2_tapering.py"


def check_clifford_choice(idx: Index, rep: Report):
    """get_clifford_operators folded on concrete symmetry kernels (numpy evaluates the array primitives; the operator constructor is a recording stand-in).
    Tapering rests on one algebraic fact per generator tau_i: the single-qubit Pauli sigma_i paired with it anticommutes with tau_i and commutes with every other
    generator, and the sigma_i sit on distinct qubits (then U_i = (sigma_i + tau_i)/sqrt2 are commuting Cliffords that map tau_i onto sigma_i).  Decided with the
    symplectic form on the binary rows, for Z-type kernels whose generators share qubits with some, all or none of the others."""
    import numpy as np
    from ..consteval import Raised, Undecidable
    rule = "K9.clifford-choice"
    f = idx.function(f"{Z2T}::get_clifford_operators")

    def kernel(words):
        return np.array([[1 if c in "XY" else 0 for c in w] + [1 if c in "ZY" else 0 for c in w] for w in words], dtype=bool)

    def anti(a, b):
        n = len(a) // 2
        return (int(np.dot(a[:n].astype(int), b[n:].astype(int))) + int(np.dot(a[n:].astype(int), b[:n].astype(int)))) % 2 == 1

    class _Cl:
        _sa_model = True

        def __init__(self, bin_op=None, factors=None):
            self.bin_op, self.factors = np.array(bin_op), factors
    # Z-type generators, as the kernels of molecular Hamiltonians under every encoding of the library are (plus a single-qubit X on a spare qubit when the
    # register is wider than the operator); every generator owns a qubit, and sits on qubits it
    # shares with none, some or all of the others - before and after the one it owns
    kernels = (["ZIZI", "IZIZ"], ["ZIIZI", "ZZIII", "IIZIZ"], ["ZZIIZI", "ZIZIIZ", "IZZZII"], ["ZZZIII", "ZIIZII", "IZIIZI", "ZZIIIZ"],
               ["ZIIIZ", "ZZIII", "ZIZII", "ZIIZI"], ["IZZI", "ZZIZ"], ["ZZZZ"],
               # a register wider than the Hamiltonian's support: the spare qubit contributes a single-qubit X generator (first row of the library's kernel)
               ["IIIIX", "ZIZII", "IZIZI"], ["IIXI", "ZZII"])
    n = 0
    for words in kernels:
        k = kernel(words)
        if any(anti(a, b) for i, a in enumerate(k) for b in k[i + 1:]):
            raise AnalysisError(f"checker table: the generators {words} do not commute")
        fo = cs.make_folder(idx, Z2T, ctors={"MultiformOperator.from_binaryop": lambda a, kw: _Cl(*a, **kw)})
        fo.real_arrays = True
        try:
            cliffords, indices = fo.run_function(f.node, {"kernel": k})
        except Undecidable as e:
            raise AnalysisError(f"get_clifford_operators not foldable on {words}: {e}")
        except Raised as e:
            n += 1
            rep.violation(rule, f, f.node, text=f"generators {words}", what="a Clifford operator is found for every generator", reason=f"raises {e.exc_type}")
            continue
        bad = []
        if len(cliffords) != len(words) or len(set(int(q) for q in indices)) != len(words):
            bad.append(f"{len(cliffords)} operators on qubits {[int(q) for q in indices]} for {len(words)} generators that each own a qubit")
        for c, q in zip(cliffords, indices):
            sigma, tau = c.bin_op[0], c.bin_op[1]
            owner = [i for i, row in enumerate(k) if np.array_equal(row, tau)]
            nq = k.shape[1] // 2
            single = int(sigma[:nq].sum() + sigma[nq:].sum()) >= 1 and all(not (sigma[j] or sigma[j + nq]) for j in range(nq) if j != int(q))
            if len(owner) != 1 or not single:
                bad.append(f"qubit {int(q)}: the pair is not (a Pauli on that qubit, one of the generators)")
                continue
            if not anti(sigma, tau):
                bad.append(f"the Pauli on qubit {int(q)} commutes with its own generator {words[owner[0]]}")
            clash = [words[j] for j, row in enumerate(k) if j != owner[0] and anti(sigma, row)]
            if clash:
                bad.append(f"the Pauli on qubit {int(q)} chosen for {words[owner[0]]} anticommutes with {clash}")
        n += 1
        rep.decide(not bad, rule, f, f.node, text=f"generators {words}: {len(cliffords)} Clifford pairs on qubits {[int(q) for q in indices]}",
                   what="the single-qubit Pauli paired with a generator anticommutes with it and commutes with every other generator; one pair per generator, on distinct qubits",
                   reason="; ".join(bad[:3]))
    rep.floor("symmetry kernels folded", n, 6)


def run(idx: Index, rep: Report, tier: str):
    rep.explain("C14, two structural clauses: existence of every numpy attribute used by the tapering modules in the installed numpy; exact "
                "validation, leaf by leaf, of the decision table that classifies idle / flipped / phase-only qubits, and of the coefficient "
                "rule applied to operators on trimmed qubits.")
    rep.trust("CPython ast", "numpy/__init__.pyi of the installed numpy", "sympy exact 2x2 algebra")
    rep.assume("kernel computation, the choice of Clifford rotations, spectra of tapered operators and the truncation bound are numerical facts and are not decided")
    check_numpy_api(idx, rep, FILES, rule="K11.numpy-api")
    check_trim_table(idx, rep)
    check_trim_fold(idx, rep)
    check_trim_operator(idx, rep)
    check_bitflip_predicate(idx, rep)
    check_truncation(idx, rep)
    check_clifford_choice(idx, rep)
    # the tapering products collapse tens of thousands of rows: row counters of the array-form operator hold every row index (shared with C16)
    from .C16 import check_index_ranges
    check_index_ranges(idx, rep)
    # trim_trivial_circuit finishes with Circuit.trim_qubits, trim_trivial_operator(reindex=True) renumbers the operator in increasing order: both have to agree
    from .C09 import check_trim_relabelling
    check_trim_relabelling(idx, rep)
    from ..rules.closures import check_closure_reuse
    rep.floor("inner functions examined for one-shot captures", check_closure_reuse(idx, rep, FILES), 1)
    f = idx.function(f"{Z2T}::get_z2_taper_function.do_taper") if idx.has_function(f"{Z2T}::get_z2_taper_function.do_taper") else None
    for fn in idx.module_by_relpath(Z2T).functions.values():
        for n in own_nodes(fn.node):
            if isinstance(n, ast.Compare) and isinstance(n.ops[0], (ast.Is, ast.IsNot)) and isinstance(n.comparators[0], ast.Constant) and isinstance(n.comparators[0].value, bool) \
                    and isinstance(n.left, ast.Name):
                rep.violation("K12.identity-on-array", fn, n, text=norm(n), what="boolean masks are tested element-wise, not by identity", reason="`array is False` is an identity test on the array object (always False); inside np.where it makes NumPy 2 raise for every input (NumPy 1: the filter selected nothing)")


# ---------------------------------------------------------------------------------------------------
ZTYPE = {"Z", "RZ"}
FLIP = {"X", "RX"}


def _gate_variants(name: str, flip_checked: bool) -> List[Tuple[str, sp.Matrix]]:
    th = sp.Symbol("theta", real=True)
    if name == "Z":
        return [("Z", symx.Z)]
    if name == "RZ":
        return [("RZ(theta)", symx.RZ(th))]
    if name == "X":
        return [("X", symx.X)]
    if name == "Y":
        return [("Y", symx.Y)]
    if name == "RX":
        if flip_checked:
            return [("RX(pi)", symx.RX(sp.pi)), ("RX(3pi)", symx.RX(3 * sp.pi)), ("RX(-pi)", symx.RX(-sp.pi))]
        return [("RX(theta)", symx.RX(th))]
    if name == "RY":
        if flip_checked:
            return [("RY(pi)", symx.RY(sp.pi)), ("RY(3pi)", symx.RY(3 * sp.pi))]
        return [("RY(theta)", symx.RY(th))]
    if name in ("H", "S", "T", "SDAG", "TDAG"):
        return [(name, symx.gate_matrix(name))]
    if name == "PHASE":
        return [("PHASE(theta)", symx.PHASE(th))]
    raise AnalysisError(f"trim table: gate name {name} not modelled")


def _state_is(vec: sp.Matrix, s: int) -> bool:
    other = sp.simplify(vec[1 - s])
    mine = sp.simplify(sp.Abs(vec[s]))
    return other == 0 and sp.simplify(mine - 1) == 0


def check_trim_table(idx: Index, rep: Report):
    rule = "K9.trim-table"
    f = idx.function(f"{TRIM}::trim_trivial_circuit")
    loops = [n for n in own_nodes(f.node) if isinstance(n, ast.For) and "circs" in norm(n.iter)]
    if not loops:
        raise AnalysisError("trim_trivial_circuit: loop over circuit components not found")
    leaves = []

    def walk(stmts, cons):
        for st in stmts:
            if isinstance(st, ast.If):
                t = st.test
                c_true, c_false = dict(cons), dict(cons)
                parts = t.values if isinstance(t, ast.BoolOp) and isinstance(t.op, ast.And) else [t]
                understood = True
                for p in parts:
                    tp = norm(p)
                    if isinstance(p, ast.Compare) and norm(p.left) == "circ.size" and isinstance(p.ops[0], ast.Eq):
                        c_true["size"] = ast.literal_eval(p.comparators[0])
                    elif isinstance(p, ast.Compare) and norm(p.left) in ("gate0.name", "gate1.name") and isinstance(p.ops[0], ast.In):
                        c_true[norm(p.left)[:5]] = set(const_str_set(p.comparators[0]))
                    elif tp in ("gate_0_is_bitflip", "gate_1_is_bitflip"):
                        c_true["flip" + tp[5]] = True
                    else:
                        understood = False
                if understood:
                    walk(st.body, c_true)
                walk(st.orelse, c_false if len(parts) == 1 else cons)
            elif isinstance(st, ast.Assign) and isinstance(st.targets[0], ast.Subscript) and norm(st.targets[0].value) == "trim_states" and isinstance(st.value, ast.Constant):
                leaves.append((dict(cons), st.value.value, st))
    walk(loops[0].body, {})
    rep.floor("trim table leaves", len(leaves), 5)
    ket0 = sp.Matrix([1, 0])
    for cons, state, st in leaves:
        size = cons.get("size")
        if size not in (1, 2) or "gate0" not in cons or (size == 2 and "gate1" not in cons):
            raise AnalysisError(f"trim table leaf at line {st.lineno}: path condition not understood: {cons}")
        seqs = []
        g0s = sorted(cons["gate0"])
        g1s = sorted(cons["gate1"]) if size == 2 else [None]
        bad = []
        n_combo = 0
        for a in g0s:
            for b in g1s:
                va = _gate_variants(a, cons.get("flip0", False))
                vb = _gate_variants(b, cons.get("flip1", False)) if b else [("", sp.eye(2))]
                for (la, ma), (lb, mb) in itertools.product(va, vb):
                    n_combo += 1
                    vec = sp.simplify(mb * ma * ket0)
                    if not _state_is(vec, state):
                        bad.append(f"{la}{' then ' + lb if lb else ''} -> {list(vec)}")
        rep.decide(not bad, rule, f, st, text=f"size {size}, gate0 in {g0s}{', gate1 in ' + str(g1s) if size == 2 else ''}"
                   f"{', flips checked' if cons.get('flip0') or cons.get('flip1') else ''} => |{state}>  ({n_combo} combinations)",
                   what=f"every gate sequence admitted by this branch leaves the qubit in |{state}> up to a phase",
                   reason=f"branch declares |{state}> but: {bad[:2]}")


class _Comp:
    """checker-side stand-in for one component of Circuit.split(): gates, size, the qubits it acts on"""
    _sa_model = True

    def __init__(self, gates, qubits):
        self._gates = list(gates)
        self.size = len(self._gates)
        self._qubit_indices = set(qubits)
        self.width = max(qubits) + 1


class _Acc:
    """stand-in for the circuit the pass builds: remembers which components were added"""
    _sa_model = True

    def __init__(self):
        self.kept = []

    def __add__(self, o):
        r = _Acc()
        r.kept = self.kept + [o]
        return r
    __iadd__ = __add__

    def trim_qubits(self):
        return None


class _Split:
    """stand-in for the input circuit: split() and get_entangled_indices() list the same components in the same order"""
    _sa_model = True

    def __init__(self, comps, width):
        self.comps, self.width = comps, width

    def split(self, trim_qubits=True):
        return list(self.comps)

    def get_entangled_indices(self):
        return [set(c._qubit_indices) for c in self.comps]


def check_trim_fold(idx: Index, rep: Report):
    """trim_trivial_circuit folded on circuits made of: idle qubits 0 and 4, a two-qubit component on (2, 3), and on qubit 1 every sequence of
    one or two gates over 13 single-qubit gates (plus three-gate sequences).  Obligations, each decided from the folded result and the exact
    2x2 matrices: idle qubits are trimmed in |0>; the two-qubit component and every untrimmed sequence stay in the circuit; a trimmed
    sequence really leaves |0> in the declared basis state (up to a phase)."""
    rule = "K9.trim-fold"
    from ..consteval import Raised, Undecidable, make_gate
    from ..rules.circuitsem import make_folder
    f = idx.function(f"{TRIM}::trim_trivial_circuit")
    th = sp.Rational(3, 10)
    alpha = [("X", None), ("Y", None), ("Z", None), ("H", None), ("S", None), ("T", None), ("RX", sp.pi), ("RX", th), ("RY", sp.pi), ("RY", th),
             ("RZ", sp.Rational(7, 10)), ("RZ", sp.pi), ("PHASE", sp.Rational(2, 5))]

    def mk(nm, par, q):
        return make_gate([nm, [q]], {"parameter": float(par) if par is not None else ""})

    seqs = [[a] for a in alpha] + [[a, b] for a in alpha for b in alpha] + [[("Z", None), ("Z", None), ("Z", None)], [("X", None), ("Z", None), ("X", None)]]
    ket0 = sp.Matrix([1, 0])
    two = _Comp([make_gate(["CNOT", [3]], {"control": [2]})], (2, 3))
    n_trim = n_keep = 0
    for seq in seqs:
        comp = _Comp([mk(nm, par, 1) for nm, par in seq], (1,))
        # components in an order that differs from the qubit order, as split() may deliver them
        circ = _Split([two, comp], 5)
        fo = make_folder(idx, TRIM, ctors={"Circuit": lambda args, kwargs: _Acc()})
        fo.env["np.pi"] = float(sp.pi)
        label = " then ".join(nm + (f"({par})" if par is not None else "") for nm, par in seq)
        try:
            got = fo.run_function(f.node, {"circuit": circ})
        except (Undecidable, Raised) as e:
            raise AnalysisError(f"trim_trivial_circuit not foldable for {label}: {e}")
        if not (isinstance(got, tuple) and len(got) == 2 and isinstance(got[0], _Acc) and isinstance(got[1], dict)):
            raise AnalysisError(f"trim_trivial_circuit folded to {got!r}")
        acc, states = got
        bad = []
        if states.get(0) != 0 or states.get(4) != 0:
            bad.append(f"idle qubits 0 and 4 reported as {states.get(0)!r}, {states.get(4)!r} instead of 0, 0")
        if two not in acc.kept or 2 in states or 3 in states:
            bad.append("the two-qubit component was not kept")
        if 1 in states:
            n_trim += 1
            vec = ket0
            for nm, par in seq:
                vec = symx.gate_matrix(nm, par) * vec
            vec = sp.simplify(vec)
            if states[1] not in (0, 1) or not _state_is(vec, states[1]):
                bad.append(f"qubit 1 is declared |{states[1]}> but {label} leaves it in {list(vec)}")
            if comp in acc.kept:
                bad.append("the component is both trimmed and kept")
        else:
            n_keep += 1
            if comp not in acc.kept:
                bad.append(f"{label} is neither trimmed nor kept: its gates are lost")
        if list(states.keys()) != sorted(states.keys()):
            bad.append(f"states handed over in the order {list(states.keys())}")
        rep.decide(not bad, rule, f, f.node, text=f"qubit 1: {label}",
                   what="idle qubits are trimmed in |0>; a trimmed gate sequence really leaves the declared basis state; everything else stays in the circuit",
                   reason="; ".join(bad))
    rep.floor("trim folds with a trimmed qubit", n_trim, 10)
    rep.floor("trim folds with a kept component", n_keep, 100)
    rep.assume("Circuit.split() and Circuit.get_entangled_indices() list the components in the same order (C09 decides split itself)")


def check_bitflip_predicate(idx: Index, rep: Report):
    """is_bitflip_gate folded on gates of every single-qubit name with angles on and off the odd multiples of pi"""
    rule = "K9.trim-table"
    import math
    from ..consteval import Folder, Raised, Rec, Undecidable, make_gate
    f = idx.function(f"{TRIM}::is_bitflip_gate")
    pi = math.pi
    cases = [("X", "", True), ("Y", "", True), ("Z", "", False), ("H", "", False), ("S", "", False), ("T", "", False),
             ("RZ", pi, False), ("PHASE", pi, False)]
    for nm in ("RX", "RY"):
        cases += [(nm, pi, True), (nm, -pi, True), (nm, 3 * pi, True), (nm, -5 * pi, True), (nm, pi + 1e-7, True), (nm, pi - 1e-7, True),
                  (nm, 0.0, False), (nm, 2 * pi, False), (nm, pi / 2, False), (nm, -pi / 2, False), (nm, pi + 1e-3, False), (nm, 4 * pi, False), (nm, "theta", False)]
    n = 0
    for nm, par, want in cases:
        fo = Folder(env={"np.pi": pi})
        try:
            got = fo.run_function(f.node, {"gate": make_gate([nm, [0]], {"parameter": par}), "atol": 1e-5})
        except (Undecidable, Raised) as e:
            raise AnalysisError(f"is_bitflip_gate not foldable for {nm}({par}): {e}")
        n += 1
        rep.decide(bool(got) == want, rule, f, f.node, text=f"is_bitflip_gate({nm}{'(' + format(par, '.6g') + ')' if isinstance(par, float) else ('(' + par + ')' if par else '')}) is {want}",
                   what="X and Y always flip a basis state; RX and RY exactly at odd multiples of pi (within the tolerance); nothing else does",
                   reason=f"folds to {got!r}")
    rep.floor("is_bitflip_gate cases", n, 30)
    none = Folder().run_function(f.node, {"gate": None, "atol": 1e-5})
    rep.decide(none is False, rule, f, f.node, text="is_bitflip_gate(None) is False", what="an absent gate is not a flip", reason=f"folds to {none!r}")


class _QOp:
    """checker-side stand-in for a QubitOperator: a dictionary word -> coefficient with the three operations the trimming code uses"""
    _sa_model = True

    def __init__(self, term=None, coefficient=1):
        self.terms = {}
        if term is not None:
            self.terms[tuple(term)] = coefficient

    def _scaled(self, k):
        r = _QOp()
        r.terms = {w: sp.nsimplify(k) * v if isinstance(k, float) else k * v for w, v in self.terms.items()}
        return r

    def __mul__(self, k):
        if isinstance(k, _QOp):
            raise TypeError("operator products are not modelled")
        return self._scaled(k)
    __rmul__ = __mul__

    def compress(self, abs_tol=1e-8):
        """as openfermion's SymbolicOperator.compress: terms whose coefficient is within abs_tol of zero are removed"""
        def gone(v):
            if isinstance(v, (int, float, complex)):
                return abs(v) <= abs_tol
            v = sp.simplify(v)
            return v == 0 or (v.is_number and abs(complex(v)) <= abs_tol)
        self.terms = {w: v for w, v in self.terms.items() if not gone(v)}

    def __add__(self, o):
        r = _QOp()
        r.terms = dict(self.terms)
        for w, v in o.terms.items():
            r.terms[w] = r.terms.get(w, 0) + v
        return r
    __iadd__ = __add__


def check_trim_operator(idx: Index, rep: Report):
    """trim_trivial_operator folded on an operator holding every Pauli word of a small register with symbolic coefficients, for every set of
    trimmed qubits and basis states: each word's coefficient must be multiplied by the product of <s|P|s> over the trimmed positions
    (I: 1, Z: (-1)^s, X and Y: 0) and the trimmed positions removed (re-indexed) or replaced by I."""
    rule = "K9.trim-operator"
    from ..consteval import Folder, Raised, Undecidable
    from ..rules.circuitsem import make_folder
    f = idx.function(f"{TRIM}::trim_trivial_operator")
    n_checked = 0
    for n in (2, 3):
        words = list(itertools.product("IXYZ", repeat=n))
        coefs = {w: sp.Symbol("c_" + "".join(w)) for w in words}
        op = _QOp()
        for w in words:
            op.terms[tuple((i, p) for i, p in enumerate(w) if p != "I")] = coefs[w]
        for k in range(1, n + 1):
            for qs in itertools.combinations(range(n), k):
                for states in itertools.product((0, 1), repeat=k):
                    trim = dict(zip(qs, states))
                    for reindex in (True, False):
                        want: Dict[tuple, sp.Expr] = {}
                        for w in words:
                            fac = 1
                            for q, st in trim.items():
                                fac *= {"I": 1, "Z": (-1) ** st, "X": 0, "Y": 0}[w[q]]
                            if fac == 0:
                                continue
                            if reindex:
                                nw = [p for i, p in enumerate(w) if i not in trim]
                            else:
                                nw = [("I" if i in trim else p) for i, p in enumerate(w)]
                            key = tuple((i, p) for i, p in enumerate(nw) if p != "I")
                            want[key] = want.get(key, 0) + fac * coefs[w]
                        fo = make_folder(idx, TRIM, ctors={"QubitOperator": lambda args, kwargs: _QOp(*args, **kwargs)})
                        try:
                            got = fo.run_function(f.node, {"qu_op": op, "trim_states": dict(trim), "n_qubits": n, "reindex": reindex})
                        except (Undecidable, Raised) as e:
                            raise AnalysisError(f"trim_trivial_operator not foldable for trim_states={trim}, reindex={reindex}: {e}")
                        if not isinstance(got, _QOp):
                            raise AnalysisError(f"trim_trivial_operator folded to {got!r}")
                        gt = {w: sp.nsimplify(sp.expand(v)) for w, v in got.terms.items() if sp.expand(v) != 0}
                        wt = {w: sp.expand(v) for w, v in want.items() if sp.expand(v) != 0}
                        bad = [w for w in set(gt) | set(wt) if sp.simplify(gt.get(w, 0) - wt.get(w, 0)) != 0]
                        n_checked += 1
                        rep.decide(not bad, rule, f, f.node, text=f"{n} qubits, trimmed {trim}, reindex={reindex}: all {len(words)} words",
                                   what="each word's coefficient is multiplied by the product of the trimmed factors' expectation values in the qubits' basis states "
                                        "(I: 1, Z: +1/-1, X, Y: 0) and the trimmed positions are removed (re-indexed) or replaced by I",
                                   reason=f"word {bad[0] if bad else ''}: coefficient {gt.get(bad[0], 0) if bad else ''}, expected {wt.get(bad[0], 0) if bad else ''}")
    rep.floor("trim_trivial_operator folds", n_checked, 60)
    # the re-indexing counts the qubits already removed: it needs the trimmed qubits in ascending order, which the circuit pass must deliver
    h = idx.function(f"{TRIM}::trim_trivial_circuit")
    rets = [r for r in own_nodes(h.node) if isinstance(r, ast.Return)]
    if not rets or not isinstance(rets[-1].value, ast.Tuple) or len(rets[-1].value.elts) != 2:
        raise AnalysisError("trim_trivial_circuit: return of (circuit, states) not found")
    try:
        got = Folder(env={"trim_states": {2: 0, 0: 1, 3: 1, 1: 0}}).expr(rets[-1].value.elts[1])
        keys = list(got.keys()) if isinstance(got, dict) else None
    except (Undecidable, Raised) as e:
        keys = None
    rep.decide(keys == [0, 1, 2, 3], rule, h, rets[-1], text="trimmed qubits are handed over in ascending order",
               what="the states dictionary iterates in ascending qubit order (the operator pass shifts positions by the count of qubits already removed)",
               reason=f"for states found in the order 2, 0, 3, 1 the returned dictionary iterates as {keys}")
    g = idx.function(f"{TRIM}::trim_trivial_qubits")
    t = full(g.node)
    ok = "trimmed_circuit, trim_states = trim_trivial_circuit(circuit)" in t and "trim_trivial_operator(operator, trim_states, circuit.width, reindex=True)" in t
    rep.decide(ok, rule, g, g.node, text="operator trimmed with the states found for the circuit, on the circuit's width", what="operator and circuit are trimmed consistently", reason="wiring changed")


# ---------------------------------------------------------------------------------------------------
def check_truncation(idx: Index, rep: Report):
    """Norm-based truncation.  The discarded part D of the operator moves no eigenvalue by more than its operator norm (Weyl), and
    ||D||_op <= ||D||_F = sqrt(2^n * sum |c|^2).  So the stated bound holds for every operator iff what the routine discards has
    sqrt(sum |c|^2) <= epsilon / sqrt(2^n), and the bound is attained (rank-one D, e.g. equal coefficients on all Z-strings), so the
    condition is also necessary.  Decided in two parts: (a) the divisor applied to epsilon, folded for 1..10 qubits, is at least
    sqrt(2^n); (b) the routine folded on operators with adversarial term-size profiles discards a part within that budget, keeps every
    other term with its coefficient, and does nothing else."""
    rule = "K9.truncation-bound"
    import math
    from ..consteval import Folder, Raised, Undecidable
    from ..rules.circuitsem import make_folder
    OPS = "tangelo/toolboxes/operators/operators.py"
    f = idx.function(f"{OPS}::QubitOperator.frobenius_norm_compression")
    fac = [n for n in own_nodes(f.node) if isinstance(n, ast.Assign) and isinstance(n.targets[0], ast.Name) and "n_qubits" in norm(n.value)]
    if len(fac) != 1:
        raise AnalysisError("frobenius_norm_compression: the divisor of epsilon (a single assignment depending on n_qubits) not found")
    bad = []
    for n in range(1, 11):
        try:
            v = Folder(env={"n_qubits": n}).expr(fac[0].value)
        except (Undecidable, Raised) as e:
            raise AnalysisError(f"frobenius_norm_compression: divisor {norm(fac[0].value)} not foldable: {e}")
        if float(v) ** 2 < 2 ** n * (1 - 1e-12):
            bad.append(f"n={n}: divisor {float(v):g} < sqrt(2^n) = {math.sqrt(2 ** n):g}")
    rep.decide(not bad, rule, f, fac[0], text=f"epsilon is divided by at least sqrt(2^n) for n = 1..10 ({norm(fac[0].value)})",
               what="the budget for the discarded coefficients is epsilon / sqrt(2^n), on odd register sizes too (otherwise equal small coefficients on all Z-strings move an eigenvalue by sqrt(2) epsilon)",
               reason="; ".join(bad[:3]))
    # (b) folded on term-size profiles
    words3 = [tuple((i, p) for i, p in enumerate(w) if p != "I") for w in itertools.product("IXYZ", repeat=3)]
    eps = 1e-2
    profiles = {
        "many terms each far below the budget, jointly above it": [eps / 400.] * 40 + [0.5, -0.7, 1.1],
        "equal small coefficients on eight words next to large ones": [eps / (2 * math.sqrt(8)) * 0.999] * 8 + [10., 10.],
        "geometric tail": [eps * 0.6 ** k for k in range(1, 30)] + [2.0],
        "all terms large": [0.3, -0.4, 0.5, 0.6],
        "all terms tiny": [eps / 1000.] * 12,
        "mixed signs and complex": [1e-4, -2e-4, 3e-4j, -1e-3, 2e-3, 0.25, -0.5j],
    }
    for label, coefs in profiles.items():
        for nq in (3, 4):
            op = _QOp()
            for w, c in zip(words3, coefs):
                op.terms[w] = c
            before = dict(op.terms)
            fo = make_folder(idx, OPS, ctors={"OrderedDict": lambda a, k: dict(*a, **k)})
            try:
                fo.run_function(f.node, {"self": op, "epsilon": eps, "n_qubits": nq})
            except (Undecidable, Raised) as e:
                raise AnalysisError(f"frobenius_norm_compression not foldable ({label}): {e}")
            after = dict(op.terms)
            dropped = {w: c for w, c in before.items() if w not in after}
            altered = [w for w, c in after.items() if w not in before or before[w] != c]
            fnorm = math.sqrt(2 ** nq * sum(abs(complex(c)) ** 2 for c in dropped.values()))
            ok = not altered and fnorm <= eps * (1 + 1e-9)
            rep.decide(ok, rule, f, f.node, text=f"{label}, {nq} qubits: {len(dropped)} of {len(before)} terms discarded",
                       what="the discarded part has Frobenius norm at most epsilon (so no eigenvalue moves by more), every kept term keeps its coefficient",
                       reason=(f"discarded part has Frobenius norm {fnorm:.4g} > epsilon = {eps:g}; " if fnorm > eps * (1 + 1e-9) else "") + (f"terms altered: {altered[:2]}" if altered else ""))

