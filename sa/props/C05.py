"""C05 Reference-state circuits encode the requested occupations (structural part);  shared helpers for C03/C04.

C05.a K8/K9 alpha/beta split: every clone of the formula n_alpha = n//2 + s//2 + n%2 (five today, discovered by shape) equals
          (n+s)/2 for n = s (mod 2) and its n_beta companion equals (n-s)/2; the fill slices select exactly n_alpha even and
          n_beta odd positions
C05.b K8  the two qubits deleted by the symmetry-conserving state encoder are the qubits the operator encoder substitutes and prunes
C05.c K3  get_mapped_vector dispatch covers every mapping it advertises (a name that passes the membership test cannot fall through)
C05.d K9  vector_to_circuit folded: one X on index i iff vector[i] is set, register width = len(vector)
"""
from __future__ import annotations

import ast
from typing import Dict, List, Optional, Tuple

import sympy as sp

from ..consteval import Folder, Opaque, Raised, Rec, Undecidable
from ..index import AnalysisError, FunctionInfo, Index, const_str_set, full, norm, own_nodes
from ..report import Report
from .. import symx

SV = "tangelo/toolboxes/qubit_mappings/statevector_mapping.py"
SCBK = "tangelo/toolboxes/qubit_mappings/symmetry_conserving_bravyi_kitaev.py"
MT = "tangelo/toolboxes/qubit_mappings/mapping_transform.py"


def find_alpha_clones(idx: Index) -> List[Tuple[FunctionInfo, ast.Assign]]:
    """assignments of the number of alpha electrons computed from an electron number and a spin (integer arithmetic)"""
    out = []
    for f in idx.all_functions():
        for n in own_nodes(f.node):
            if isinstance(n, ast.Assign) and len(n.targets) == 1 and "n_alpha" in norm(n.targets[0]):
                v = n.value
                names = {norm(x) for x in ast.walk(v) if isinstance(x, (ast.Name, ast.Attribute))}
                has_elec = any("elec" in x for x in names)
                has_spin = any(x.split(".")[-1] == "spin" for x in names)
                arith = any(isinstance(x, ast.BinOp) and isinstance(x.op, (ast.FloorDiv, ast.Div, ast.Mod)) for x in ast.walk(v))
                if has_elec and has_spin and arith:
                    out.append((f, n))
    return out


def decide_alpha_formula(rep: Report, rule: str, f: FunctionInfo, st: ast.Assign, want_sign=+1):
    """value == (n + s)/2 whenever n = s (mod 2): decided on n = 2a + r, s = 2b + r for r in {0, 1}"""
    v = st.value
    names = sorted({norm(x) for x in ast.walk(v) if isinstance(x, (ast.Name, ast.Attribute)) and not isinstance(getattr(x, "ctx", None), ast.Store)})
    nnames = [x for x in names if "elec" in x]
    snames = [x for x in names if x.split(".")[-1] == "spin"]
    if len(nnames) != 1 or len(snames) != 1:
        rep.violation(rule, f, st, text=f"{norm(st)}", what="n_alpha is computed from the electron number and the spin", reason="formula does not involve exactly one electron number and one spin")
        return
    nname, sname = nnames[0], snames[0]
    a, b = sp.symbols("a b", integer=True)
    ok = True
    for r in (0, 1):
        env = {nname: 2 * a + r, sname: 2 * b + r}
        try:
            val = sp.simplify(symx.to_sympy(v, env))
        except symx.Untranslatable as e:
            raise AnalysisError(f"{f.ref}: alpha formula not translatable: {e}")
        ok = ok and sp.simplify(val - (a + b + r)) == 0
    rep.decide(ok, rule, f, st, text=f"{f.qualname}: {norm(st)}",
               what="the number of alpha electrons is (n + s)/2 for every electron number n and spin s of equal parity (s may be negative)",
               reason="formula differs from (n + s)/2 on parity-compatible (n, s)")


def run(idx: Index, rep: Report, tier: str):
    rep.explain("C05 structural part: symbolic validation of every clone of the alpha/beta electron split and of the fill slices, agreement "
                "of the qubits deleted by the symmetry-conserving state encoder with those pruned by the operator encoder, dispatch "
                "coverage of get_mapped_vector, and the folded vector -> X-gates construction.")
    rep.trust("CPython ast", "sympy integer/floor simplification", "sa.consteval folding subset")
    rep.assume("the Bravyi-Kitaev encoder matrix, the Majorana-string construction and the JKMN tree come from openfermion / are not decided")
    rule = "K9.alpha-beta"
    clones = find_alpha_clones(idx)
    rep.floor("alpha-electron formula clones", len(clones), 5)
    for f, st in clones:
        decide_alpha_formula(rep, rule, f, st)
    # n_beta companion and fill slices in get_vector
    gv = idx.function(f"{SV}::get_vector")
    nb = [n for n in own_nodes(gv.node) if isinstance(n, ast.Assign) and norm(n.targets[0]) == "n_beta"]
    ok = False
    if nb:
        a, b = sp.symbols("a b", integer=True)
        ok = True
        na = [n for n in own_nodes(gv.node) if isinstance(n, ast.Assign) and norm(n.targets[0]) == "n_alpha"]
        for r in (0, 1):
            env = {"n_electrons": 2 * a + r, "spin": 2 * b + r}
            if na:
                env["n_alpha"] = sp.simplify(symx.to_sympy(na[0].value, dict(env)))          # n_beta may be written as what is left after the alpha electrons
            val = sp.simplify(symx.to_sympy(nb[0].value, env))
            ok = ok and sp.simplify(val - (a - b)) == 0
    rep.decide(ok, rule, gv, nb[0] if nb else gv.node, text=f"get_vector: {norm(nb[0]) if nb else 'n_beta'}", what="the number of beta electrons is (n - s)/2", reason="formula differs from (n - s)/2")
    # which positions are filled is decided by folding get_vector on every (spin-orbitals, electrons, spin) below (K9.vector-to-circuit), not by the spelling of the slices
    # slice lengths: len(range(0, 2na, 2)) = na ; len(range(1, 2nb+1, 2)) = nb
    na = sp.Symbol("na", integer=True, nonnegative=True)
    ok = sp.simplify(sp.ceiling((2 * na - 0) / sp.Integer(2)) - na) == 0 and sp.simplify(sp.ceiling((2 * na + 1 - 1) / sp.Integer(2)) - na) == 0
    rep.decide(ok, rule, gv, gv.node, text="slice 0:2k:2 and 1:2k+1:2 each select k positions", what="each slice selects exactly as many positions as electrons of that spin", reason="slice length differs")
    check_deleted_qubits(idx, rep)
    check_dispatch(idx, rep)
    from . import C03 as _C03
    _C03.check_dispatch(idx, rep)                 # the operator encoder's own dispatch and refusals (zero electrons is a valid sector)
    check_vector_to_circuit(idx, rep)
    from .C03 import check_jkmn_tree
    check_jkmn_tree(idx, rep)          # operator and vector side of the JKMN encoding both index qubits through this tree
    check_vector_ordering(idx, rep)
    check_default_spin_agreement(idx, rep)
    _C03.check_register_size_reaches_encoder(idx, rep)       # occupation-number operators of low orbitals must be encoded on the full register
    # the state encoders only read the occupation vector they are given (a caller encodes the same vector under several encodings)
    from ..alias import Analyzer
    from ..rules.purity import check_purity
    an = Analyzer(idx, max_depth=4)
    for fname, params in (("do_bk_transform", ["vector"]), ("do_scbk_transform", ["vector"]), ("do_jkmn_transform", ["vector"]), ("get_mapped_vector", ["vector"]),
                          ("vector_to_circuit", ["vector"])):
        check_purity(idx, rep, an, idx.function(f"{SV}::{fname}"), params, rule="K1.vector-inputs",
                     what="encoding an occupation vector leaves the caller's vector unchanged")


def check_vector_ordering(idx: Index, rep: Report):
    """get_mapped_vector folded with the state encoders replaced by recorders, on a vector of position labels: every encoder receives the positions
    interleaved (alpha0, beta0, alpha1, ...) or all alpha then all beta exactly as the *operator* encoder of the same name does (C03.K8.spin-ordering:
    re-indexed iff up_then_down, the symmetry-conserving one always alpha-then-beta), for every spelling of the encoding name"""
    rule = "K8.vector-ordering"
    from ..consteval import IntArray, Raised, Undecidable
    from ..rules.circuitsem import make_folder
    f = idx.function(f"{SV}::get_mapped_vector")
    labels = [0, 1, 2, 3, 4, 5, 6, 7]
    blocked = labels[::2] + labels[1::2]
    n = 0
    for mp0 in ("JW", "BK", "SCBK", "JKMN"):
        for mp in (mp0, mp0.lower(), mp0.capitalize()):
            for utd in (False, True):
                seen = []

                def enc(tag):
                    def _f(a, k):
                        seen.append((tag, a))
                        return a[0]
                    return _f
                fo = make_folder(idx, SV, ctors={"do_bk_transform": enc("BK"), "do_scbk_transform": enc("SCBK"), "do_jkmn_transform": enc("JKMN")})
                try:
                    out = fo.run_function(f.node, {"vector": IntArray(labels), "mapping": mp, "up_then_down": utd})
                except Undecidable as e:
                    raise AnalysisError(f"get_mapped_vector not foldable for {mp}, up_then_down={utd}: {e}")
                except Raised as e:
                    rep.violation(rule, f, f.node, text=f"{mp}, up_then_down={utd}", what="every supported encoding name is dispatched", reason=f"raises {e.exc_type}")
                    continue
                want = blocked if (utd or mp0 == "SCBK") else labels
                got_vec = seen[0][1][0] if seen else out
                got = list(got_vec.v) if isinstance(got_vec, IntArray) else got_vec
                ok = got == want and (mp0 == "JW" and not seen or len(seen) == 1 and seen[0][0] == mp0)
                if mp0 == "SCBK" and seen:
                    ok = ok and len(seen[0][1]) == 2 and seen[0][1][1] == len(labels)
                n += 1
                rep.decide(ok, rule, f, f.node, text=f"{mp}, up_then_down={utd}: occupations reaching the {mp0} state encoder",
                           what="the occupation vector is handed to the state encoder in the spin-orbital order the operator encoder of the same name uses "
                                "(alpha-then-beta iff requested; always for the symmetry-conserving encoding), with alpha before beta",
                           reason=f"the encoder {[t for t, _ in seen] or 'none'} receives positions {got}, expected {want}")
    rep.floor("vector orderings folded", n, 24)


def check_default_spin_agreement(idx: Index, rep: Report):
    """When no spin is given, the operator side (fermion_to_qubit_mapping defaults spin to 0) and the vector side (get_vector fills the first n positions)
    must agree on the number of alpha electrons also for odd electron numbers - the parity factor of the symmetry-conserving encoding depends on it.
    Both are folded: the alpha count of the occupation vector get_vector builds, and the n_alpha of the operator encoder at spin = 0."""
    rule = "K8.default-spin"
    from ..consteval import Folder, IntArray, Raised, Undecidable
    from ..rules.circuitsem import make_folder
    gv = idx.function(f"{SV}::get_vector")
    enc = idx.function(f"{SCBK}::symmetry_conserving_bravyi_kitaev")
    na = [x for x in own_nodes(enc.node) if isinstance(x, ast.Assign) and norm(x.targets[0]) == "n_alpha"]
    if len(na) != 1:
        raise AnalysisError("scBK: single n_alpha assignment expected")
    f2q = idx.function("tangelo/toolboxes/qubit_mappings/mapping_transform.py::fermion_to_qubit_mapping")
    dflt = dict(zip([a.arg for a in f2q.node.args.args][-len(f2q.node.args.defaults):], f2q.node.args.defaults)).get("spin")
    if dflt is None or not isinstance(dflt, ast.Constant):
        raise AnalysisError("fermion_to_qubit_mapping: default of `spin` not a literal")
    bad = []
    n = 0
    for n_so in (4, 6, 8):
        for ne in range(0, n_so + 1):
            for spin_arg in (None, 0):
                fo = make_folder(idx, SV, ctors={"get_mapped_vector": lambda a, k: a[0], "np.zeros": lambda a, k: IntArray([0] * a[0])})
                try:
                    vec = fo.run_function(gv.node, {"n_spinorbitals": n_so, "n_electrons": ne, "mapping": "JW", "up_then_down": False, "spin": spin_arg})
                    op_na = Folder(env={"n_electrons": ne, "spin": dflt.value if dflt.value is not None else 0}).expr(na[0].value)
                except (Undecidable, Raised) as e:
                    raise AnalysisError(f"default-spin fold failed for ({n_so}, {ne}): {e}")
                occ = list(vec.v) if isinstance(vec, IntArray) else list(vec)
                n += 1
                if sum(occ[0::2]) != op_na or sum(occ) != ne:
                    bad.append(f"{ne} electrons in {n_so} spin-orbitals: the vector has {sum(occ[0::2])} alpha electrons, the operator encoder assumes {op_na}")
    rep.decide(not bad, rule, enc, na[0], text=f"default spin: alpha count of get_vector(spin=None) == n_alpha of the scBK operator encoder at spin={dflt.value} ({n} cases, odd electron numbers included)",
               what="without an explicit spin, reference vector and operator encoder assume the same number of alpha electrons (the extra electron of an odd count is alpha)",
               reason="; ".join(bad[:3]))


def check_deleted_qubits(idx: Index, rep: Report):
    rule = "K8.scbk-qubits"
    n = sp.Symbol("n", integer=True, positive=True)
    enc = idx.function(f"{SCBK}::symmetry_conserving_bravyi_kitaev")
    edits = sorted([c for c in own_nodes(enc.node) if isinstance(c, ast.Call) and norm(c.func) == "edit_operator_for_spin"], key=lambda c: c.lineno)
    if len(edits) != 2:
        raise AnalysisError("scBK: two edit_operator_for_spin calls expected")
    env = {"n_spinorbitals": 2 * n}
    edited = []
    for c in edits:
        edited.append(sp.simplify(symx.to_sympy(c.args[1], env) - 1))      # edit_operator_for_spin substitutes Z on qubit (arg - 1)
    ef = idx.function(f"{SCBK}::edit_operator_for_spin")
    import itertools
    from ..rules.circuitsem import make_folder
    from .C14 import _QOp
    rho = sp.Symbol("rho")
    for so in (1, 2, 3):
        words = list(itertools.product("IXYZ", repeat=3))
        op = _QOp()
        want = {}
        for w in words:
            cw = sp.Symbol("c_" + "".join(w))
            op.terms[tuple((i, p) for i, p in enumerate(w) if p != "I")] = cw
            if w[so - 1] == "Z":
                key = tuple((i, p) for i, p in enumerate(w) if p != "I" and i != so - 1)
                want[key] = want.get(key, 0) + rho * cw
            else:
                key = tuple((i, p) for i, p in enumerate(w) if p != "I")
                want[key] = want.get(key, 0) + cw
        fo = make_folder(idx, SCBK)
        try:
            got = fo.run_function(ef.node, {"qubit_operator": op, "spin_orbital": so, "orbital_parity": rho})
        except (Undecidable, Raised) as e:
            raise AnalysisError(f"edit_operator_for_spin not foldable: {e}")
        gt = got.terms if isinstance(got, _QOp) else {}
        bad = [w for w in set(gt) | set(want) if sp.simplify(gt.get(w, 0) - want.get(w, 0)) != 0]
        rep.decide(not bad, rule, ef, ef.node, text=f"edit_operator_for_spin(op, {so}, rho): Z on qubit {so - 1} is replaced by rho in all 64 three-qubit words",
                   what="the substituted qubit is the one below the given orbital count: every Z there becomes the parity eigenvalue, equal words are merged, nothing else changes",
                   reason=f"word {bad[:1]}: got {gt.get(bad[0]) if bad else ''}, expected {want.get(bad[0]) if bad else ''}")
    prune = [n_ for n_ in own_nodes(enc.node) if isinstance(n_, ast.Assign) and norm(n_.targets[0]) == "to_prune"]
    if not prune or not isinstance(prune[0].value, ast.Tuple):
        raise AnalysisError("scBK: to_prune tuple not found")
    pruned = [sp.simplify(symx.to_sympy(e, env)) for e in prune[0].value.elts]
    rep.decide(set(edited) == set(pruned) == {2 * n - 1, n - 1}, rule, enc, prune[0], text=f"substituted qubits {sorted(map(str, edited))} = pruned qubits {sorted(map(str, pruned))}",
               what="exactly the two qubits whose Z was replaced by a parity eigenvalue are removed: n-1 (alpha parity) and 2n-1 (total parity)",
               reason=f"substituted {edited}, pruned {pruned}")
    pcall = [c for c in own_nodes(enc.node) if isinstance(c, ast.Call) and norm(c.func) == "prune_unused_indices"]
    ok = bool(pcall) and {k.arg: norm(k.value) for k in pcall[0].keywords} == {"prune_indices": "to_prune", "n_qubits": "n_spinorbitals"}
    rep.decide(ok, rule, enc, pcall[0] if pcall else enc.node, text="prune_unused_indices(to_prune, n_qubits=n_spinorbitals)", what="pruning uses the full register size, not the operator's own support",
               reason="prune call changed")
    # parities: total parity from n_electrons, middle parity from n_alpha
    pa = {norm(n_.targets[0]): norm(n_.value) for n_ in own_nodes(enc.node) if isinstance(n_, ast.Assign) and norm(n_.targets[0]).startswith("parity_")}
    ok = pa == {"parity_final_orb": "(-1) ** n_electrons", "parity_middle_orb": "(-1) ** n_alpha"}
    ok = ok and norm(edits[0].args[2]) == "parity_final_orb" and norm(edits[1].args[2]) == "parity_middle_orb" and \
        sp.simplify(symx.to_sympy(edits[0].args[1], env) - 2 * n) == 0 and sp.simplify(symx.to_sympy(edits[1].args[1], env) - n) == 0
    rep.decide(ok, rule, enc, edits[0], text="last qubit <- (-1)^n_electrons, middle qubit <- (-1)^n_alpha",
               what="the last qubit of the tree encoding holds the total occupation parity, the middle one the alpha parity", reason=f"parities {pa}")
    # state encoder deletes the same two qubits
    st = idx.function(f"{SV}::do_scbk_transform")
    dels = sorted([c for c in own_nodes(st.node) if isinstance(c, ast.Call) and norm(c.func) == "np.delete"], key=lambda c: c.lineno)
    if len(dels) != 2:
        raise AnalysisError("do_scbk_transform: two np.delete calls expected")
    d1 = sp.simplify(symx.to_sympy(dels[0].args[1], env))
    d2 = sp.simplify(symx.to_sympy(dels[1].args[1], env))
    chained = norm(dels[1].args[0]) == "vector_bk" and norm(dels[0].args[0]) == "vector_bk"
    first_target = [n_ for n_ in own_nodes(st.node) if isinstance(n_, ast.Assign) and n_.value is dels[0]]
    chained = chained and bool(first_target) and norm(first_target[0].targets[0]) == "vector_bk"
    # the second deletion acts on the already shortened vector: its index must be below the first one to denote the same qubit
    ok = chained and d1 == 2 * n - 1 and d2 == n - 1
    rep.decide(ok, rule, st, dels[0], text=f"state encoder deletes qubit {d1} then qubit {d2}",
               what="the reference-state encoder removes the same two qubits as the operator encoder (the larger index first, so that the smaller is unaffected)",
               reason=f"deletes {d1} then {d2}")
    g = idx.function(f"{SV}::get_mapped_vector")
    from ..consteval import FuncVal, Opaque
    for utd in (True, False):
        fo = make_folder(idx, SV)
        fo.env["do_scbk_transform"] = FuncVal(ast.parse("def _probe(*a):\n    return ('probe', a)").body[0])
        fo.env["warnings"] = Opaque("warnings")
        vec = [sp.Symbol(f"v{i}") for i in range(6)]
        try:
            got = fo.run_function(g.node, {"vector": list(vec), "mapping": "scbk", "up_then_down": utd})
        except (Undecidable, Raised) as e:
            raise AnalysisError(f"get_mapped_vector not foldable for scBK: {e}")
        ok = isinstance(got, tuple) and got[0] == "probe" and len(got[1]) == 2 and got[1][1] == 6
        rep.decide(ok, rule, g, g.node, text=f"do_scbk_transform(vector, len(vector)), up_then_down={utd}", what="the register size handed to the state encoder is the vector length",
                   reason=f"called with {got[1][1:] if isinstance(got, tuple) else got}")


def check_dispatch(idx: Index, rep: Report):
    rule = "K3.mapping-dispatch"
    m = idx.module_by_relpath(SV)
    adv = const_str_set(m.assigned.get("available_mappings")) if "available_mappings" in m.assigned else None
    if adv is None:
        raise AnalysisError("statevector_mapping.available_mappings not a literal set")
    g = idx.function(f"{SV}::get_mapped_vector")
    handled = set()
    for n in ast.walk(g.node):
        if isinstance(n, ast.If) and isinstance(n.test, ast.Compare) and norm(n.test.left) == "mapping.upper()" and isinstance(n.test.comparators[0], ast.Constant):
            if any(isinstance(x, ast.Return) for b in n.body for x in ast.walk(b)):
                handled.add(n.test.comparators[0].value)
    for k in sorted(adv):
        rep.decide(k in handled, rule, g, g.node, text=f"get_mapped_vector handles {k}", what="every mapping accepted by get_vector is encoded (none falls through to None)",
                   reason=f"{k} passes the membership test of get_vector but has no branch in get_mapped_vector")
    gv = idx.function(f"{SV}::get_vector")
    from ..rules.guards import decide_refusals
    base = {"n_spinorbitals": 4, "n_electrons": 2, "up_then_down": False, "spin": None}
    cases = []
    for k in sorted(adv):
        for sp_ in sorted({k.lower(), k.upper(), k.capitalize()}):
            cases.append((f"mapping '{sp_}'", dict(base, mapping=sp_), False))
    cases.append(("mapping 'XYZ'", dict(base, mapping="XYZ"), True))
    decide_refusals(idx, rep, rule, gv, cases, what="every advertised mapping name is accepted in any letter case, anything else is an error")
    extra = handled - adv
    if extra:
        rep.info(rule, g, g.node, text=f"branches for {sorted(extra)} not advertised", reason="handled but not in available_mappings")


def check_vector_to_circuit(idx: Index, rep: Report):
    rule = "K9.vector-to-circuit"
    from .C17 import CTORS
    f = idx.function(f"{SV}::vector_to_circuit")
    for vec in ([1, 0, 1, 1], [0, 0], [0, 1, 0, 0, 0, 1]):
        fo = Folder(ctors=CTORS)
        try:
            c = fo.run_function(f.node, {"vector": list(vec)})
        except (Undecidable, Raised) as e:
            raise AnalysisError(f"vector_to_circuit not foldable: {e}")
        gates = [(g.fields["name"], g.fields["target"]) for g in c.fields["_gates"]]
        want = [("X", [i]) for i, v in enumerate(vec) if v]
        ok = gates == want and c.fields["width"] == len(vec)
        rep.decide(ok, rule, f, f.node, text=f"vector {vec} -> X on {[i for i, v in enumerate(vec) if v]}, width {len(vec)}",
                   what="exactly the set positions get an X gate and the register keeps the full length", reason=f"gates {gates}, width {c.fields['width']}")
    # the whole chain, folded for Jordan-Wigner: get_reference_circuit -> get_vector -> get_mapped_vector -> vector_to_circuit
    from ..rules.circuitsem import make_folder
    rc = idx.function(f"{SV}::get_reference_circuit")
    gv = idx.function(f"{SV}::get_vector")
    n_cases = 0
    for n_so in (4, 6):
        for n_e in range(0, n_so + 1):
            for spin in [None] + list(range(-n_e, n_e + 1)):
                s_eff = spin if spin is not None else n_e % 2           # documented default: lowest spin
                if (n_e + s_eff) % 2 or (n_e + s_eff) // 2 > n_so // 2 or (n_e - s_eff) // 2 > n_so // 2 or (n_e - s_eff) < 0 or (n_e + s_eff) < 0:
                    continue
                na, nb = (n_e + s_eff) // 2, (n_e - s_eff) // 2
                inter = [0] * n_so
                for k in range(na):
                    inter[2 * k] = 1
                for k in range(nb):
                    inter[2 * k + 1] = 1
                for utd in (False, True):
                    want_vec = inter[::2] + inter[1::2] if utd else inter
                    for mp in ("JW", "jw"):
                        fo = make_folder(idx, SV, ctors=CTORS)
                        try:
                            got = fo.run_function(gv.node, {"n_spinorbitals": n_so, "n_electrons": n_e, "mapping": mp, "up_then_down": utd, "spin": spin})
                            fo2 = make_folder(idx, SV, ctors=CTORS)
                            circ = fo2.run_function(rc.node, {"n_spinorbitals": n_so, "n_electrons": n_e, "mapping": mp, "up_then_down": utd, "spin": spin})
                        except Undecidable as e:
                            raise AnalysisError(f"reference-state chain not foldable for ({n_so}, {n_e}, spin={spin}, up_then_down={utd}): {e}")
                        except Raised as e:
                            n_cases += 1
                            rep.violation(rule, rc, rc.node, text=f"JW reference state: {n_so} spin-orbitals, {n_e} electrons, spin {spin}, up_then_down={utd}, mapping '{mp}'",
                                          what="a valid request yields a reference state", reason=f"the chain raises {e.exc_type} for this valid request")
                            continue
                        gates = [(g.fields["name"], g.fields["target"]) for g in circ.fields["_gates"]]
                        ok = list(got) == want_vec and gates == [("X", [i]) for i, v in enumerate(want_vec) if v] and circ.fields["width"] == n_so
                        n_cases += 1
                        rep.decide(ok, rule, rc, rc.node, text=f"JW reference state: {n_so} spin-orbitals, {n_e} electrons, spin {spin}, up_then_down={utd}",
                                   what="the occupation vector has (n+2S)/2 alpha and (n-2S)/2 beta electrons in the lowest orbitals (lowest spin when none is given), "
                                        "in the requested ordering, and the reference circuit flips exactly those qubits on the full register",
                                   reason=f"vector {list(got)}, gates {gates}; expected occupations {want_vec}")
    rep.floor("reference-state chain folds", n_cases, 60)
