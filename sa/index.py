"""Repository index: parses every module of the package under analysis and
resolves names, imports, classes and methods without importing anything.

The root analysed is ``$SA_REPO`` (default ``/repo``); the self-test points it
at scratch copies.  External packages (openfermion, numpy stubs) are parsed
lazily from site-packages when a rule needs an inherited method body.
"""
from __future__ import annotations

import ast
import os
import sys
import sysconfig
import warnings
from dataclasses import dataclass, field
from pathlib import Path
from typing import Dict, Iterator, List, Optional, Tuple, Union


class AnalysisError(Exception):
    """An anchor vanished / an idiom is not recognised: the check is broken (exit 2)."""


def repo_root() -> Path:
    return Path(os.environ.get("SA_REPO", "/repo"))


def site_packages() -> Path:
    return Path(sysconfig.get_paths()["purelib"])


@dataclass
class FunctionInfo:
    module: "ModuleInfo"
    qualname: str
    node: Union[ast.FunctionDef, ast.AsyncFunctionDef]
    cls: Optional["ClassInfo"] = None
    parent: Optional["FunctionInfo"] = None

    @property
    def name(self) -> str:
        return self.node.name

    @property
    def ref(self) -> str:
        return f"{self.module.relpath}::{self.qualname}"

    @property
    def params(self) -> List[str]:
        a = self.node.args
        return [x.arg for x in a.posonlyargs + a.args] + ([a.vararg.arg] if a.vararg else []) + \
               [x.arg for x in a.kwonlyargs] + ([a.kwarg.arg] if a.kwarg else [])

    @property
    def positional(self) -> List[str]:
        a = self.node.args
        return [x.arg for x in a.posonlyargs + a.args]

    def decorators(self) -> List[str]:
        return [ast.unparse(d) for d in self.node.decorator_list]

    def is_static(self) -> bool:
        return "staticmethod" in self.decorators()

    def is_property(self) -> bool:
        return any(d in ("property", "cached_property", "functools.cached_property") or d.endswith(".setter") for d in self.decorators())

    def __hash__(self):
        return hash((self.module.name, self.qualname))

    def __eq__(self, other):
        return isinstance(other, FunctionInfo) and (self.module.name, self.qualname) == (other.module.name, other.qualname)


@dataclass
class ClassInfo:
    module: "ModuleInfo"
    name: str
    node: ast.ClassDef
    methods: Dict[str, FunctionInfo] = field(default_factory=dict)

    @property
    def ref(self) -> str:
        return f"{self.module.relpath}::{self.name}"

    @property
    def fq(self) -> str:
        return f"{self.module.name}.{self.name}"

    def base_exprs(self) -> List[str]:
        return [ast.unparse(b) for b in self.node.bases]

    def __hash__(self):
        return hash(self.fq)

    def __eq__(self, other):
        return isinstance(other, ClassInfo) and self.fq == other.fq


class ModuleInfo:
    def __init__(self, name: str, path: Path, relpath: str, external: bool = False):
        self.name = name
        self.path = path
        self.relpath = relpath
        self.external = external
        self.source = path.read_text(encoding="utf-8")
        with warnings.catch_warnings():
            warnings.simplefilter("ignore", SyntaxWarning)
            self.tree = ast.parse(self.source, filename=str(path))
        self.is_package = path.name == "__init__.py"
        self.imports: Dict[str, str] = {}      # local name -> fully qualified dotted name
        self.star_imports: List[str] = []
        self.functions: Dict[str, FunctionInfo] = {}   # qualname -> info (all nesting levels)
        self.classes: Dict[str, ClassInfo] = {}
        self.assigned: Dict[str, ast.AST] = {}  # module-level NAME = value
        self._collect()

    # -- construction -----------------------------------------------------
    def _pkg(self) -> str:
        return self.name if self.is_package else self.name.rpartition(".")[0]

    def _abs(self, level: int, mod: Optional[str]) -> str:
        if level == 0:
            return mod or ""
        base = self._pkg().split(".")
        if level > 1:
            base = base[: len(base) - (level - 1)]
        return ".".join(base + ([mod] if mod else []))

    def _collect_imports(self, body_nodes):
        for node in body_nodes:
            if isinstance(node, ast.Import):
                for al in node.names:
                    if al.asname:
                        self.imports[al.asname] = al.name
                    else:
                        top = al.name.split(".")[0]
                        self.imports[top] = top
            elif isinstance(node, ast.ImportFrom):
                base = self._abs(node.level, node.module)
                for al in node.names:
                    if al.name == "*":
                        self.star_imports.append(base)
                    else:
                        self.imports[al.asname or al.name] = f"{base}.{al.name}" if base else al.name

    def _collect(self):
        # imports anywhere in the module (function-level imports are common in this repo)
        self._collect_imports(ast.walk(self.tree))
        for node in self.tree.body:
            if isinstance(node, ast.Assign):
                for t in node.targets:
                    if isinstance(t, ast.Name):
                        self.assigned[t.id] = node.value
            elif isinstance(node, ast.AnnAssign) and isinstance(node.target, ast.Name) and node.value is not None:
                self.assigned[node.target.id] = node.value
        self._walk_defs(self.tree.body, prefix="", cls=None, parent=None)

    def _walk_defs(self, body, prefix, cls, parent):
        for node in body:
            if isinstance(node, (ast.FunctionDef, ast.AsyncFunctionDef)):
                qn = prefix + node.name
                fi = FunctionInfo(self, qn, node, cls=cls, parent=parent)
                self.functions[qn] = fi
                if cls is not None and parent is None:
                    cls.methods[node.name] = fi
                self._walk_defs(node.body, qn + ".", cls, fi)
            elif isinstance(node, ast.ClassDef):
                ci = ClassInfo(self, prefix + node.name, node)
                self.classes[ci.name] = ci
                self._walk_defs(node.body, ci.name + ".", ci, None)
            elif isinstance(node, (ast.If, ast.Try, ast.With, ast.For, ast.While)):
                for fld in ("body", "orelse", "finalbody"):
                    self._walk_defs(getattr(node, fld, []) or [], prefix, cls, parent)
                for h in getattr(node, "handlers", []) or []:
                    self._walk_defs(h.body, prefix, cls, parent)

    def segment(self, node: ast.AST) -> str:
        return ast.get_source_segment(self.source, node) or ast.unparse(node)


class Index:
    """All modules of the analysed package (tests excluded) plus lazy externals."""

    def __init__(self, root: Optional[Path] = None, package: str = "tangelo"):
        self.root = Path(root) if root else repo_root()
        self.package = package
        self.modules: Dict[str, ModuleInfo] = {}
        self._external: Dict[str, Optional[ModuleInfo]] = {}
        pkg_dir = self.root / package
        if not pkg_dir.is_dir():
            raise AnalysisError(f"package directory {pkg_dir} not found")
        for path in sorted(pkg_dir.rglob("*.py")):
            rel = path.relative_to(self.root)
            if "tests" in rel.parts:
                continue
            parts = list(rel.with_suffix("").parts)
            if parts[-1] == "__init__":
                parts = parts[:-1]
            name = ".".join(parts)
            try:
                self.modules[name] = ModuleInfo(name, path, str(rel))
            except SyntaxError as e:
                raise AnalysisError(f"cannot parse {rel}: {e}")

    # -- lookup -----------------------------------------------------------
    def module_by_relpath(self, relpath: str) -> ModuleInfo:
        for m in self.modules.values():
            if m.relpath == relpath:
                return m
        raise AnalysisError(f"anchor file {relpath} not found in {self.root}")

    def function(self, ref: str) -> FunctionInfo:
        """ref = 'tangelo/linq/circuit.py::Circuit.add_gate'"""
        relpath, _, qn = ref.partition("::")
        m = self.module_by_relpath(relpath)
        if qn not in m.functions:
            raise AnalysisError(f"anchor function {ref} not found")
        return m.functions[qn]

    def has_function(self, ref: str) -> bool:
        try:
            self.function(ref)
            return True
        except AnalysisError:
            return False

    def cls(self, ref: str) -> ClassInfo:
        relpath, _, qn = ref.partition("::")
        m = self.module_by_relpath(relpath)
        if qn not in m.classes:
            raise AnalysisError(f"anchor class {ref} not found")
        return m.classes[qn]

    def all_functions(self) -> Iterator[FunctionInfo]:
        for m in self.modules.values():
            yield from m.functions.values()

    def all_classes(self) -> Iterator[ClassInfo]:
        for m in self.modules.values():
            yield from m.classes.values()

    # -- external modules ---------------------------------------------------
    def load_module(self, dotted: str) -> Optional[ModuleInfo]:
        if dotted in self.modules:
            return self.modules[dotted]
        if dotted in self._external:
            return self._external[dotted]
        mi = None
        if dotted.split(".")[0] != self.package:
            base = site_packages().joinpath(*dotted.split("."))
            for cand in (base.with_suffix(".py"), base / "__init__.py"):
                if cand.is_file():
                    try:
                        mi = ModuleInfo(dotted, cand, str(cand), external=True)
                    except (SyntaxError, UnicodeDecodeError):
                        mi = None
                    break
        self._external[dotted] = mi
        return mi

    # -- symbol resolution ----------------------------------------------------
    def resolve_fq(self, fq: str, depth: int = 0):
        """Resolve a dotted name to ModuleInfo / ClassInfo / FunctionInfo / ('value', module, node) / None,
        following re-exports through packages."""
        if depth > 12 or not fq:
            return None
        m = self.load_module(fq)
        if m is not None:
            return m
        head, _, tail = fq.rpartition(".")
        if not head:
            return None
        owner = self.resolve_fq(head, depth + 1)
        if isinstance(owner, ModuleInfo):
            if tail in owner.classes:
                return owner.classes[tail]
            if tail in owner.functions:
                return owner.functions[tail]
            if tail in owner.imports and owner.imports[tail] != fq:
                return self.resolve_fq(owner.imports[tail], depth + 1)
            if tail in owner.assigned:
                return ("value", owner, owner.assigned[tail])
            for star in owner.star_imports:
                r = self.resolve_fq(f"{star}.{tail}", depth + 1)
                if r is not None:
                    return r
            return None
        if isinstance(owner, ClassInfo):
            meth = self.find_method(owner, tail)
            return meth
        return None

    def resolve_name(self, module: ModuleInfo, name: str):
        """Resolve a bare name used at module/function level of `module`."""
        if name in module.classes:
            return module.classes[name]
        if name in module.functions:
            return module.functions[name]
        if name in module.imports:
            return self.resolve_fq(module.imports[name])
        if name in module.assigned:
            return ("value", module, module.assigned[name])
        return None

    def fq_of_expr(self, module: ModuleInfo, expr: ast.AST) -> Optional[str]:
        """Dotted external/internal name of `np.linalg.norm`-style expressions, via the import table."""
        parts = []
        cur = expr
        while isinstance(cur, ast.Attribute):
            parts.append(cur.attr)
            cur = cur.value
        if not isinstance(cur, ast.Name):
            return None
        base = module.imports.get(cur.id)
        if base is None:
            if cur.id in module.classes or cur.id in module.functions:
                base = f"{module.name}.{cur.id}"
            else:
                return None
        return ".".join([base] + parts[::-1])

    def resolve_expr(self, module: ModuleInfo, expr: ast.AST):
        if isinstance(expr, ast.Name):
            return self.resolve_name(module, expr.id)
        fq = self.fq_of_expr(module, expr)
        return self.resolve_fq(fq) if fq else None

    # -- classes ------------------------------------------------------------
    def bases(self, ci: ClassInfo) -> List[ClassInfo]:
        out = []
        for b in ci.node.bases:
            r = self.resolve_expr(ci.module, b)
            if isinstance(r, ClassInfo):
                out.append(r)
        return out

    def mro(self, ci: ClassInfo) -> List[ClassInfo]:
        """Linearisation good enough for single-inheritance-dominated code (depth-first, left to right,
        duplicates removed keeping the last occurrence)."""
        seen: List[ClassInfo] = []

        def visit(c, depth=0):
            if depth > 20:
                return
            seen.append(c)
            for b in self.bases(c):
                visit(b, depth + 1)
        visit(ci)
        out: List[ClassInfo] = []
        for c in seen:
            if c in out:
                out.remove(c)
            out.append(c)
        return out

    def find_method(self, ci: ClassInfo, name: str) -> Optional[FunctionInfo]:
        for c in self.mro(ci):
            if name in c.methods:
                return c.methods[name]
        return None

    def subclasses(self, base: ClassInfo, strict: bool = True) -> List[ClassInfo]:
        out = []
        for c in self.all_classes():
            if c == base and strict:
                continue
            if base in self.mro(c):
                out.append(c)
        return out

    def class_attrs_assigned(self, ci: ClassInfo) -> set:
        """Names X for every `self.X = ...` store in any method of the class or its bases."""
        out = set()
        for c in self.mro(ci):
            for f in c.methods.values():
                for n in ast.walk(f.node):
                    if isinstance(n, ast.Attribute) and isinstance(n.ctx, ast.Store) and \
                            isinstance(n.value, ast.Name) and n.value.id == "self":
                        out.add(n.attr)
        return out


# ---------------------------------------------------------------------------
# small AST helpers shared by the rules
# ---------------------------------------------------------------------------

def norm(node: ast.AST) -> str:
    """Normalised text of a node (formatting- and comment-independent)."""
    try:
        s = ast.unparse(node)
    except Exception:  # pragma: no cover
        s = ast.dump(node)
    if isinstance(node, (ast.If, ast.For, ast.While, ast.With, ast.Try, ast.FunctionDef, ast.ClassDef)):
        s = s.split("\n", 1)[0]
    return " ".join(s.split())


def own_nodes(func_node: ast.AST) -> Iterator[ast.AST]:
    """Walk a function body without descending into nested function / class definitions."""
    # pre-order traversal in source order
    stack = list(reversed(list(ast.iter_child_nodes(func_node))))
    while stack:
        n = stack.pop()
        yield n
        if isinstance(n, (ast.FunctionDef, ast.AsyncFunctionDef, ast.ClassDef, ast.Lambda)):
            continue
        stack.extend(reversed(list(ast.iter_child_nodes(n))))


def calls_in(node: ast.AST, own: bool = True) -> List[ast.Call]:
    it = own_nodes(node) if own else ast.walk(node)
    out = [n for n in it if isinstance(n, ast.Call)]
    out.sort(key=lambda c: (c.lineno, c.col_offset))
    return out


def call_name(call: ast.Call) -> str:
    return ast.unparse(call.func)


def const_str_set(node: ast.AST) -> Optional[frozenset]:
    """{'A','B'} / ['A'] / ('A',) / 'A' literal -> frozenset of str, else None."""
    if isinstance(node, (ast.Set, ast.List, ast.Tuple)):
        vals = []
        for e in node.elts:
            if isinstance(e, ast.Constant) and isinstance(e.value, str):
                vals.append(e.value)
            else:
                return None
        return frozenset(vals)
    if isinstance(node, ast.Constant) and isinstance(node.value, str):
        return frozenset([node.value])
    return None


def kwarg(call: ast.Call, name: str) -> Optional[ast.AST]:
    for k in call.keywords:
        if k.arg == name:
            return k.value
    return None


def loc(module: ModuleInfo, node: ast.AST) -> str:
    return f"{module.relpath}:{getattr(node, 'lineno', 0)}"


def full(node: ast.AST) -> str:
    """whole normalised text of a node, compound statements included"""
    return " ".join(ast.unparse(node).split())


def resolve_local(fnode: ast.AST, e: ast.AST, hops: int = 4) -> ast.AST:
    """follow a plain local name to the expression of its single assignment inside the function (a value handed on through a local is the same value)"""
    for _ in range(hops):
        if not isinstance(e, ast.Name):
            break
        defs = [n for n in ast.walk(fnode) if isinstance(n, ast.Assign) and len(n.targets) == 1 and isinstance(n.targets[0], ast.Name) and n.targets[0].id == e.id]
        if len(defs) != 1 or any(isinstance(n, ast.AugAssign) and isinstance(n.target, ast.Name) and n.target.id == e.id for n in ast.walk(fnode)):
            break
        e = defs[0].value
    return e
