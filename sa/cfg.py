"""Statement-level control-flow graph for one function (rule kinds K6/K7).

Nodes are simple statements and the *tests* of compound statements; edges follow If / For / While / Try /
With / Return / Raise / Break / Continue / Assert.  Every statement inside a ``try`` body gets an exceptional
edge to each handler (and to ``finally``); a ``raise`` outside any ``try`` goes to the RAISE exit, a return
to the RETURN exit.  Calls outside ``try`` are *not* given exceptional edges by default (``exc_edges=True``
adds an edge from every statement containing a call to the RAISE exit, through enclosing finally blocks) -
that option is what "restored on every exit, exceptional ones included" is decided with.
"""
from __future__ import annotations

import ast
from typing import Dict, Iterable, List, Optional, Set, Tuple

import networkx as nx

from .index import AnalysisError


class Node:
    __slots__ = ("id", "stmt", "kind", "label")

    def __init__(self, id: int, stmt: Optional[ast.AST], kind: str, label: str = ""):
        self.id = id
        self.stmt = stmt
        self.kind = kind      # entry | return_exit | raise_exit | stmt | test | for | with | except
        self.label = label

    def __repr__(self):
        ln = getattr(self.stmt, "lineno", "-")
        return f"<{self.id}:{self.kind}@{ln}>"


class CFG:
    def __init__(self, func_node: ast.AST, exc_edges: bool = False):
        self.func = func_node
        self.exc_edges = exc_edges
        self.g = nx.DiGraph()
        self.nodes: List[Node] = []
        self.by_stmt: Dict[int, int] = {}     # id(ast stmt) -> node id (test node for compound statements)
        self.entry = self._new(None, "entry")
        self.return_exit = self._new(None, "return_exit")
        self.raise_exit = self._new(None, "raise_exit")
        # stacks
        self._loops: List[Tuple[int, List[int]]] = []      # (continue target, break sources)
        self._handlers: List[List[int]] = []               # innermost try: handler entry node ids (+finally)
        self._finally: List[Optional[List[ast.stmt]]] = []
        ends = self._block(func_node.body, [self.entry.id])
        # `ends` holds node ids or (id, edge label) pairs (the false edge of a trailing `if`, the exit of a trailing loop)
        self._connect([(e[0], (e[1] + "|fallthrough") if e[1] else "fallthrough") if isinstance(e, tuple) else (e, "fallthrough") for e in ends], self.return_exit.id)
        self._idom = None
        self._ipdom = None

    # -- construction -----------------------------------------------------------
    def _new(self, stmt, kind, label="") -> Node:
        n = Node(len(self.nodes), stmt, kind, label)
        self.nodes.append(n)
        self.g.add_node(n.id)
        if stmt is not None and id(stmt) not in self.by_stmt:
            self.by_stmt[id(stmt)] = n.id
        return n

    def _edge(self, a: int, b: int, label: str = ""):
        if self.g.has_edge(a, b):
            old = self.g[a][b].get("label", "")
            if label and label not in old.split("|"):
                self.g[a][b]["label"] = (old + "|" + label) if old else label
        else:
            self.g.add_edge(a, b, label=label)

    def _connect(self, preds: Iterable, n: int):
        for p in preds:
            if isinstance(p, tuple):
                self._edge(p[0], n, p[1])
            else:
                self._edge(p, n)

    def _exc_targets(self) -> List[int]:
        if self._handlers:
            return self._handlers[-1]
        return [self.raise_exit.id]

    def _has_call(self, node: ast.AST) -> bool:
        for n in ast.walk(node):
            if isinstance(n, ast.Call):
                return True
        return False

    def _maybe_exc(self, nid: int, node: ast.AST):
        inside_try = bool(self._handlers)
        if (inside_try or self.exc_edges) and self._has_call(node) or (inside_try and isinstance(node, (ast.Subscript, ast.Assign, ast.AugAssign, ast.Expr))):
            for t in self._exc_targets():
                self._edge(nid, t, "exc")

    def _block(self, stmts: List[ast.stmt], preds: List) -> List:
        cur = preds
        for s in stmts:
            cur = self._stmt(s, cur)
        return cur

    def _stmt(self, s: ast.stmt, preds: List) -> List:
        if isinstance(s, ast.If):
            t = self._new(s, "test")
            self._connect(preds, t.id)
            self._maybe_exc(t.id, s.test)
            a = self._block(s.body, [(t.id, "true")])
            b = self._block(s.orelse, [(t.id, "false")]) if s.orelse else [(t.id, "false")]
            return a + b
        if isinstance(s, (ast.For, ast.AsyncFor)):
            h = self._new(s, "for")
            self._connect(preds, h.id)
            self._maybe_exc(h.id, s.iter)
            brk: List[int] = []
            self._loops.append((h.id, brk))
            body_end = self._block(s.body, [(h.id, "iter")])
            self._loops.pop()
            self._connect(body_end, h.id)
            out = self._block(s.orelse, [(h.id, "done")]) if s.orelse else [(h.id, "done")]
            return out + brk
        if isinstance(s, ast.While):
            h = self._new(s, "test")
            self._connect(preds, h.id)
            self._maybe_exc(h.id, s.test)
            brk = []
            self._loops.append((h.id, brk))
            body_end = self._block(s.body, [(h.id, "true")])
            self._loops.pop()
            self._connect(body_end, h.id)
            infinite = isinstance(s.test, ast.Constant) and bool(s.test.value)
            out = [] if infinite else (self._block(s.orelse, [(h.id, "false")]) if s.orelse else [(h.id, "false")])
            return out + brk
        if isinstance(s, (ast.With, ast.AsyncWith)):
            w = self._new(s, "with")
            self._connect(preds, w.id)
            for it in s.items:
                self._maybe_exc(w.id, it.context_expr)
            return self._block(s.body, [w.id])
        if isinstance(s, ast.Try):
            return self._try(s, preds)
        if isinstance(s, ast.Return):
            n = self._new(s, "stmt")
            self._connect(preds, n.id)
            if s.value is not None:
                self._maybe_exc(n.id, s.value)
            self._leave(n.id, self.return_exit.id, "return")
            return []
        if isinstance(s, ast.Raise):
            n = self._new(s, "stmt")
            self._connect(preds, n.id)
            for t in self._exc_targets():
                self._edge(n.id, t, "raise")
            return []
        if isinstance(s, ast.Break):
            n = self._new(s, "stmt")
            self._connect(preds, n.id)
            if not self._loops:
                raise AnalysisError("break outside loop")
            self._loops[-1][1].append(n.id)
            return []
        if isinstance(s, ast.Continue):
            n = self._new(s, "stmt")
            self._connect(preds, n.id)
            self._edge(n.id, self._loops[-1][0], "continue")
            return []
        if isinstance(s, ast.Assert):
            n = self._new(s, "test")
            self._connect(preds, n.id)
            for t in self._exc_targets():
                self._edge(n.id, t, "assert-fail")
            return [(n.id, "true")]
        if isinstance(s, (ast.FunctionDef, ast.AsyncFunctionDef, ast.ClassDef)):
            n = self._new(s, "stmt")
            self._connect(preds, n.id)
            return [n.id]
        if isinstance(s, ast.Match):
            t = self._new(s, "test")
            self._connect(preds, t.id)
            outs: List = []
            for c in s.cases:
                outs += self._block(c.body, [(t.id, "case")])
            return outs + [(t.id, "nomatch")]
        # simple statement
        n = self._new(s, "stmt")
        self._connect(preds, n.id)
        self._maybe_exc(n.id, s)
        return [n.id]

    def _leave(self, nid: int, target: int, label: str):
        """return: passes through enclosing finally blocks (modelled as direct edge to the finally entry
        recorded in the handler list when present)"""
        fin = [f for f in self._finally if f]
        if fin and self._handlers:
            # approximate: a return inside try/finally runs the innermost finally body first
            for t in self._handlers[-1]:
                if self.nodes[t].kind == "finally":
                    self._edge(nid, t, label)
                    return
        self._edge(nid, target, label)

    def _try(self, s: ast.Try, preds: List) -> List:
        # entries of handlers / finally are created first so that body statements can target them
        handler_nodes = []
        for h in s.handlers:
            hn = self._new(h, "except")
            handler_nodes.append(hn)
        fin_node = self._new(s, "finally") if s.finalbody else None
        targets = [hn.id for hn in handler_nodes]
        # an exception not matched by any handler (or no handler) propagates: via finally or outwards
        catches_all = any(h.type is None or (isinstance(h.type, ast.Name) and h.type.id in ("Exception", "BaseException"))
                          for h in s.handlers)
        outer = self._exc_targets()
        if fin_node is not None:
            targets.append(fin_node.id)
        elif not catches_all:
            targets = targets + outer
        self._handlers.append(targets)
        self._finally.append(s.finalbody or None)
        body_end = self._block(s.body, preds)
        self._handlers.pop()
        self._finally.pop()
        # else block runs after the body without handler protection from these handlers
        if fin_node is not None:
            self._handlers.append([fin_node.id])
            self._finally.append(s.finalbody)
        else_end = self._block(s.orelse, body_end) if s.orelse else body_end
        ends: List = list(else_end)
        for h, hn in zip(s.handlers, handler_nodes):
            ends += self._block(h.body, [hn.id])
        if fin_node is not None:
            self._handlers.pop()
            self._finally.pop()
            self._connect(ends, fin_node.id)
            fin_end = self._block(s.finalbody, [fin_node.id])
            # after finally: normal continuation, plus re-raise of a pending exception
            for e in fin_end:
                eid = e[0] if isinstance(e, tuple) else e
                for t in outer:
                    self._edge(eid, t, "reraise")
                self._edge(eid, self.return_exit.id, "pending-return")
            return fin_end
        return ends

    # -- queries ----------------------------------------------------------------
    def node_for(self, stmt: ast.AST) -> int:
        nid = self.by_stmt.get(id(stmt))
        if nid is None:
            # an expression / nested node: find the enclosing statement
            for n in self.nodes:
                if n.stmt is not None and n.kind not in ("except", "finally"):
                    tops = [n.stmt]
                    if isinstance(n.stmt, ast.If) or isinstance(n.stmt, ast.While):
                        tops = [n.stmt.test]
                    elif isinstance(n.stmt, (ast.For, ast.AsyncFor)):
                        tops = [n.stmt.iter, n.stmt.target]
                    elif isinstance(n.stmt, (ast.With, ast.AsyncWith)):
                        tops = [i.context_expr for i in n.stmt.items]
                    elif isinstance(n.stmt, (ast.FunctionDef, ast.AsyncFunctionDef, ast.ClassDef, ast.Try)):
                        tops = []
                    for t in tops:
                        for sub in ast.walk(t):
                            if sub is stmt:
                                return n.id
            raise AnalysisError(f"statement at line {getattr(stmt, 'lineno', '?')} not in CFG")
        return nid

    def idom(self) -> Dict[int, int]:
        if self._idom is None:
            self._idom = nx.immediate_dominators(self.g, self.entry.id)
        return self._idom

    def dominates(self, a: int, b: int) -> bool:
        """every path entry -> b passes through a"""
        idom = self.idom()
        if b not in idom:
            return True      # b unreachable
        cur = b
        while True:
            if cur == a:
                return True
            nxt = idom.get(cur)
            if nxt is None or nxt == cur:
                return False
            cur = nxt

    def reachable(self, a: int, avoid: Iterable[int] = ()) -> Set[int]:
        avoid = set(avoid)
        seen = set()
        stack = [a]
        while stack:
            n = stack.pop()
            if n in seen or n in avoid:
                continue
            seen.add(n)
            stack.extend(self.g.successors(n))
        return seen

    def path_exists(self, a: int, b: int, avoid: Iterable[int] = (), skip_edge_labels: Iterable[str] = ()) -> bool:
        avoid = set(avoid) - {a, b}
        skip = set(skip_edge_labels)
        seen = set()
        stack = [a]
        first = True
        while stack:
            n = stack.pop()
            if n == b and not first:
                return True
            first = False
            if n in seen or n in avoid:
                continue
            seen.add(n)
            for m in self.g.successors(n):
                lab = self.g[n][m].get("label", "")
                if lab and set(lab.split("|")) <= skip:
                    continue
                if m == b:
                    return True
                stack.append(m)
        return False

    def must_pass_through(self, src: int, dst: int, via: Iterable[int]) -> bool:
        """every path src -> dst passes through one of `via`"""
        return not self.path_exists(src, dst, avoid=via)

    def stmts(self) -> List[Node]:
        return [n for n in self.nodes if n.stmt is not None]


def _selfcheck():
    """construction facts that every path rule relies on, evaluated once at import: a trailing `if` without `else` and a trailing loop can be
    left without executing their body"""
    import ast as _ast
    from .index import AnalysisError as _AE
    for src in ("def f(c):\n    a()\n    if c:\n        b()\n", "def f(xs):\n    for x in xs:\n        b()\n", "def f(c):\n    while c:\n        b()\n"):
        fn = _ast.parse(src).body[0]
        g = CFG(fn)
        b = [n for n in _ast.walk(fn) if isinstance(n, _ast.Expr) and isinstance(n.value, _ast.Call) and n.value.func.id == "b"][0]
        if not g.path_exists(g.entry.id, g.return_exit.id, avoid=[g.node_for(b)]):
            raise _AE("CFG self-check failed: the body of a trailing if / loop is reported as unavoidable")


_selfcheck()
