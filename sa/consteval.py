"""Restricted constant folder / partial evaluator for table-like functions.

Folds the statement kinds the repository's table builders and small decision functions use (literal
containers, loops over literal sets, str.lower/upper, slicing, concatenation, f-strings, if-chains on
constants, `Gate(...)` constructor calls captured as records).  The *parameter* of a gate may be a sympy
symbol so that rules like "the inverse negates the angle" are decided for every angle at once.

Anything outside the supported subset raises ``Undecidable`` - callers turn that into an analysis error
(never a silent pass).
"""
from __future__ import annotations

import ast
import re as _re
from dataclasses import dataclass, field
from typing import Any, Callable, Dict, List, Optional

import numpy as _np
import sympy as sp

from .index import norm


def _natural_sorted(x):
    """sorted() as Python defines it; values that Python cannot order (mixed types, folded records) fall back to a deterministic order by repr"""
    x = list(x)
    try:
        return sorted(x)
    except TypeError:
        return sorted(x, key=repr)


SET_ORDER = {"mode": "desc"}


def _set_order(x):
    """the order in which a folded program sees the elements of a set.  Python promises none; a program whose result depends on it is wrong for some
    inputs (small integers happen to iterate in increasing order until the table wraps: {1, 8} iterates 8, 1).  The folder therefore hands the elements
    over in *decreasing* order - the opposite of the order that makes such code look right on small examples; code that sorts first is unaffected."""
    x = _natural_sorted(x)
    return x[::-1] if SET_ORDER["mode"] == "desc" else x


_NO = object()


class _PyCallable:
    """a callable built from trusted standard-library parts (operator.itemgetter)"""
    _sa_model = True

    def __init__(self, f):
        self.f = f

    def __call__(self, *a, **k):
        return self.f(*a, **k)


class Undecidable(Exception):
    pass


class Raised(Exception):
    """the folded function raises on this input"""

    def __init__(self, exc_type: str, node: ast.AST):
        super().__init__(exc_type)
        self.exc_type = exc_type
        self.node = node


@dataclass
class Opaque:
    """an external value the folder does not look into (e.g. cirq.H); identified by its source text"""
    text: str
    args: tuple = ()
    kwargs: tuple = ()

    def __hash__(self):
        return hash((self.text, self.args, self.kwargs))

    def __repr__(self):
        if self.args or self.kwargs:
            a = ", ".join([repr(x) for x in self.args] + [f"{k}={v!r}" for k, v in self.kwargs])
            return f"{self.text}({a})"
        return self.text


@dataclass
class Rec:
    """object built by a known constructor call, e.g. Gate(name, target, ...)"""
    cls: str
    fields: Dict[str, Any] = field(default_factory=dict)

    def __repr__(self):
        return f"{self.cls}({', '.join(f'{k}={v!r}' for k, v in self.fields.items())})"


@dataclass
class FuncVal:
    node: ast.FunctionDef
    closure: Optional[Dict[str, Any]] = None        # defining environment of a nested function
    bound_self: Any = None                           # receiver of a bound method
    home: Optional[str] = None                       # module (repo-relative path) whose names the body refers to


@dataclass
class ClassVal:
    """a repository class made foldable: calling it folds __init__, attribute/method access folds properties/methods"""
    name: str
    methods: Dict[str, ast.FunctionDef]
    properties: Dict[str, ast.FunctionDef]
    home: Optional[str] = None
    method_home: Optional[Dict[str, str]] = None


class IntArray:
    """a one-dimensional integer numpy array, as far as index arithmetic uses one: element-wise + and // with integers or equal-length
    arrays, integer and slice indexing, slice assignment; values are Python integers (no fixed width)"""
    _sa_model = True

    def __init__(self, values):
        self.v = [int(x) for x in values]

    def _zip(self, o):
        if isinstance(o, IntArray):
            if len(o.v) != len(self.v):
                raise Undecidable("array shapes differ")
            return o.v
        if isinstance(o, int) and not isinstance(o, bool):
            return [o] * len(self.v)
        raise Undecidable(f"array arithmetic with {o!r}")

    def __add__(self, o):
        return IntArray([a + b for a, b in zip(self.v, self._zip(o))])
    __radd__ = __add__
    __iadd__ = __add__

    def __sub__(self, o):
        return IntArray([a - b for a, b in zip(self.v, self._zip(o))])

    def __mul__(self, o):
        return IntArray([a * b for a, b in zip(self.v, self._zip(o))])
    __rmul__ = __mul__

    def __floordiv__(self, o):
        return IntArray([a // b for a, b in zip(self.v, self._zip(o))])

    def __mod__(self, o):
        return IntArray([a % b for a, b in zip(self.v, self._zip(o))])

    def __getitem__(self, k):
        if isinstance(k, slice):
            return IntArray(self.v[k])
        if isinstance(k, int):
            return self.v[k]
        raise Undecidable(f"array index {k!r}")

    def __setitem__(self, k, val):
        if isinstance(k, slice):
            n = len(self.v[k])
            vals = val.v if isinstance(val, IntArray) else ([val] * n if isinstance(val, int) else list(val))
            if len(vals) != n:
                raise Undecidable("slice assignment of a different length")
            self.v[k] = [int(x) for x in vals]
        else:
            self.v[k] = int(val)

    def __len__(self):
        return len(self.v)

    def __iter__(self):
        return iter(self.v)

    def __eq__(self, o):
        return isinstance(o, IntArray) and o.v == self.v

    def __repr__(self):
        return f"IntArray({self.v})"


class _Break(Exception):
    pass


class _Continue(Exception):
    pass


class _Return(Exception):
    def __init__(self, value):
        self.value = value


GATE_PARAMS = ["name", "target", "control", "parameter", "is_variational"]
GATE_DEFAULTS = {"control": None, "parameter": "", "is_variational": False}


def make_gate(args: List[Any], kwargs: Dict[str, Any]) -> Rec:
    f = dict(GATE_DEFAULTS)
    for k, v in zip(GATE_PARAMS, args):
        f[k] = v
    f.update(kwargs)
    if isinstance(f.get("name"), str):
        f["name"] = f["name"].upper()
    return Rec("Gate", f)


class Folder:
    def __init__(self, env: Optional[Dict[str, Any]] = None, ctors: Optional[Dict[str, Callable]] = None,
                 opaque_unknown: bool = False, isinstance_hook: Optional[Callable] = None,
                 resolver: Optional[Callable[[str], Any]] = None, resolver_factory: Optional[Callable[[str], Callable]] = None):
        self.resolver = resolver
        self.resolver_factory = resolver_factory
        self.env: Dict[str, Any] = dict(env or {})
        self.ctors = {"Gate": make_gate}
        if ctors:
            self.ctors.update(ctors)
            for k in [k for k, v in self.ctors.items() if v is None]:
                del self.ctors[k]                   # ctors={"Gate": None}: fold the repository's own class instead of the record shortcut
        self.opaque_unknown = opaque_unknown
        self.isinstance_hook = isinstance_hook

    # -- statements -----------------------------------------------------------
    def run_function(self, fnode: ast.FunctionDef, args: Dict[str, Any]) -> Any:
        self.env.update(args)
        try:
            self.block(fnode.body)
        except _Return as r:
            return r.value
        return None

    def run_prefix(self, fnode: ast.FunctionDef, args: Dict[str, Any], stop: Callable[[ast.stmt], bool]) -> Dict[str, Any]:
        """fold the top-level statements of a function up to (not including) the first one for which `stop` holds; returns the environment"""
        self.env.update(args)
        for s in fnode.body:
            if stop(s):
                return self.env
            try:
                self.stmt(s)
            except _Return:
                return self.env
        return self.env

    def block(self, stmts):
        for s in stmts:
            self.stmt(s)

    def stmt(self, s):
        if isinstance(s, ast.Expr):
            if isinstance(s.value, ast.Constant):
                return       # docstring
            r = self.expr(s.value)
            if isinstance(r, Opaque) and isinstance(s.value, ast.Call) and not getattr(self, "opaque_unknown", False):
                # a call the folder does not model, made for its effect only (its value is discarded): when it is handed a mutable value it may well change it
                # (np.add.at, random.shuffle, ...) - going on as if nothing happened would fold a different program
                for a in list(s.value.args) + [k.value for k in s.value.keywords]:
                    try:
                        av = self.expr(a)
                    except (Undecidable, Raised):
                        continue
                    if isinstance(av, (_np.ndarray, list, dict, set, Rec)):
                        raise Undecidable(f"call for effect {norm(s.value)[:60]} on a mutable value")
            return
        if isinstance(s, ast.Assign):
            v = self.expr(s.value)
            for t in s.targets:
                self.assign(t, v)
            return
        if isinstance(s, ast.AnnAssign):
            if s.value is not None:
                self.assign(s.target, self.expr(s.value))
            return
        if isinstance(s, ast.AugAssign):
            cur = self.expr(s.target)
            v = self.expr(s.value)
            if isinstance(cur, list) and isinstance(s.op, ast.Add) and isinstance(v, (list, tuple)):
                cur.extend(v)                      # list += ... extends the same object (visible through every alias), as in Python
                self.assign(s.target, cur)
                return
            if isinstance(cur, list) and isinstance(s.op, ast.Mult) and isinstance(v, int) and not isinstance(v, bool):
                cur[:] = cur * v
                self.assign(s.target, cur)
                return
            if isinstance(cur, set) and isinstance(v, (set, frozenset)) and isinstance(s.op, (ast.Sub, ast.BitOr, ast.BitAnd, ast.BitXor)):
                # set -= / |= / &= / ^= change the same object (visible through every alias), as in Python
                if isinstance(s.op, ast.Sub):
                    cur.difference_update(v)
                elif isinstance(s.op, ast.BitOr):
                    cur.update(v)
                elif isinstance(s.op, ast.BitAnd):
                    cur.intersection_update(v)
                else:
                    cur.symmetric_difference_update(v)
                self.assign(s.target, cur)
                return
            names = self._DUNDER.get(type(s.op))
            if names:
                im = self._rec_method(cur, "__i" + names[0][2:])
                if im is not None:
                    self.assign(s.target, self.call_funcval(im, [v], {}))
                    return
            self.assign(s.target, self.binop(s.op, cur, v, s))
            return
        if isinstance(s, ast.If):
            c = self.truth(self.expr(s.test), s.test)
            self.block(s.body if c else s.orelse)
            return
        if isinstance(s, ast.For):
            it = self.expr(s.iter)
            if isinstance(it, (set, frozenset)):
                it = _set_order(it)
            if isinstance(it, dict):
                it = list(it.keys())
            if isinstance(it, (type({}.keys()), IntArray)) or (getattr(it, "_sa_model", False) and hasattr(it, "__iter__")):
                it = list(it)
            if self._rec_method(it, "__iter__") is not None:
                it = list(self.call_funcval(self._rec_method(it, "__iter__"), [], {}))
            if not isinstance(it, (list, tuple, str, range)):
                raise Undecidable(f"loop over {norm(s.iter)}")
            broke = False
            if isinstance(it, Opaque):
                raise Undecidable(f"iteration over {it!r}")
            for x in list(it):
                self.assign(s.target, x)
                try:
                    self.block(s.body)
                except _Break:
                    broke = True
                    break
                except _Continue:
                    continue
            if not broke:
                self.block(s.orelse)
            return
        if isinstance(s, ast.Delete):
            for t in s.targets:
                if isinstance(t, ast.Subscript):
                    cont = self.expr(t.value)
                    if isinstance(t.slice, ast.Slice):
                        k = slice(*(self.expr(x) if x is not None else None for x in (t.slice.lower, t.slice.upper, t.slice.step)))
                    else:
                        k = self.expr(t.slice)
                    if not isinstance(cont, (list, dict)):
                        raise Undecidable(f"del on {norm(t.value)}")
                    try:
                        del cont[k]
                    except (KeyError, IndexError):
                        raise Raised("KeyError" if isinstance(cont, dict) else "IndexError", s)
                elif isinstance(t, ast.Name):
                    self.env.pop(t.id, None)
                else:
                    raise Undecidable(f"del {norm(t)}")
            return
        if isinstance(s, ast.Break):
            raise _Break()
        if isinstance(s, ast.Continue):
            raise _Continue()
        if isinstance(s, ast.While):
            n_iter = 0
            broke = False
            while self.truth(self.expr(s.test), s.test):
                n_iter += 1
                if n_iter > 10000:
                    raise Undecidable(f"while loop at line {s.lineno} does not terminate within 10000 iterations")
                try:
                    self.block(s.body)
                except _Break:
                    broke = True
                    break
                except _Continue:
                    continue
            if not broke:
                self.block(s.orelse)
            return
        if isinstance(s, ast.Return):
            raise _Return(self.expr(s.value) if s.value is not None else None)
        if isinstance(s, ast.Raise):
            t = "Exception"
            if s.exc is not None:
                t = norm(s.exc.func) if isinstance(s.exc, ast.Call) else norm(s.exc)
            raise Raised(t, s)
        if isinstance(s, (ast.Import, ast.ImportFrom, ast.Pass)):
            if isinstance(s, ast.Import):
                for al in s.names:
                    nm = al.asname or al.name.split(".")[0]
                    self.env.setdefault(nm, Opaque(al.asname and al.name or nm))
            elif isinstance(s, ast.ImportFrom):
                for al in s.names:
                    self.env.setdefault(al.asname or al.name, Opaque(f"{s.module}.{al.name}"))
            return
        if isinstance(s, (ast.FunctionDef,)):
            self.env[s.name] = FuncVal(s, closure=self.env)
            return
        if isinstance(s, ast.Try):
            try:
                self.block(s.body)
            except Raised as r:
                for h in s.handlers:
                    names = []
                    if h.type is not None:
                        names = [norm(x) for x in (h.type.elts if isinstance(h.type, ast.Tuple) else [h.type])]
                    if h.type is None or r.exc_type in names or "Exception" in names:
                        self.block(h.body)
                        break
                else:
                    self.block(s.finalbody)
                    raise
            else:
                self.block(s.orelse)
            self.block(s.finalbody)
            return
        if isinstance(s, ast.Assert):
            if not self.truth(self.expr(s.test), s.test):
                raise Raised("AssertionError", s)
            return
        if isinstance(s, ast.With) and all(i.optional_vars is None and isinstance(i.context_expr, ast.Call) and ast.unparse(i.context_expr.func) == "warnings.catch_warnings"
                                           for i in s.items):
            # `with warnings.catch_warnings():` changes which warnings are shown, not what the body computes; calls on the warnings module in it are skipped
            self.block([b for b in s.body if not (isinstance(b, ast.Expr) and isinstance(b.value, ast.Call) and ast.unparse(b.value.func).startswith("warnings."))])
            return
        raise Undecidable(f"statement {type(s).__name__} at line {s.lineno}")

    def assign(self, t, v):
        if isinstance(t, ast.Name):
            self.env[t.id] = v
        elif isinstance(t, (ast.Tuple, ast.List)):
            vals = list(v)
            if len(vals) != len(t.elts):
                raise Undecidable("unpack arity")
            for a, b in zip(t.elts, vals):
                self.assign(a, b)
        elif isinstance(t, ast.Subscript):
            cont = self.expr(t.value)
            if isinstance(t.slice, ast.Slice):
                k = slice(*(self.expr(x) if x is not None else None for x in (t.slice.lower, t.slice.upper, t.slice.step)))
            elif isinstance(t.slice, ast.Tuple) and any(isinstance(x, ast.Slice) for x in t.slice.elts):
                k = tuple(slice(*(self.expr(y) if y is not None else None for y in (x.lower, x.upper, x.step))) if isinstance(x, ast.Slice) else self.expr(x)
                          for x in t.slice.elts)
            else:
                k = self.expr(t.slice)
            if isinstance(cont, (dict, list)) or getattr(cont, "_sa_model", False) and hasattr(cont, "__setitem__"):
                cont[k] = list(v) if isinstance(cont, list) and isinstance(k, slice) else v
            elif isinstance(cont, _np.ndarray):
                import warnings as _w
                if isinstance(v, sp.Basic):
                    if v.free_symbols:
                        raise Undecidable(f"symbolic value stored into the array {norm(t.value)}")
                    v = complex(v) if not v.is_real else float(v)
                with _w.catch_warnings():
                    _w.simplefilter("ignore")            # numpy's casting (e.g. complex stored into a real array keeps the real part) is what the program does
                    try:
                        cont[k] = v
                    except (TypeError, ValueError, IndexError) as ex:
                        raise Raised(type(ex).__name__, t)
            else:
                raise Undecidable(f"store into {norm(t.value)}")
        elif isinstance(t, ast.Attribute):
            obj = self.expr(t.value)
            if isinstance(obj, Rec) and t.attr == "__dict__" and isinstance(v, dict):
                obj.fields.clear()
                obj.fields.update(v)
            elif isinstance(obj, Rec) and t.attr in (getattr(self, "inherited_props", None) or {}) and t.attr not in obj.fields:
                self.inherited_props[t.attr][1](obj, v)          # a property the class inherits from a third-party base: the rule's model of its setter
            elif isinstance(obj, Rec):
                obj.fields[t.attr] = v
            elif getattr(obj, "_sa_model", False):
                setattr(obj, t.attr, v)
            else:
                raise Undecidable(f"attribute store {norm(t)}")
        else:
            raise Undecidable(f"assignment target {norm(t)}")

    # -- expressions ------------------------------------------------------------
    def truth(self, v, node) -> bool:
        if isinstance(v, (bool, int, float, str, list, tuple, dict, set, frozenset, type({}.keys()), IntArray)) or v is None:
            return bool(v) if not isinstance(v, IntArray) else len(v) > 0
        if isinstance(v, sp.Basic):
            if v is sp.true:
                return True
            if v is sp.false:
                return False
            if v.is_number:
                return bool(v != 0)
            if getattr(self, "generic_symbols", False):
                return sp.simplify(v) != 0             # symbols stand for generic (non-zero) values
            raise Undecidable(f"truth of symbolic {v} in {norm(node)}")
        if isinstance(v, (Rec, Opaque)):
            return True
        if isinstance(v, (_np.generic, complex)):
            return bool(v)                              # a concrete numpy / complex scalar
        if getattr(v, "_sa_model", False) and (hasattr(type(v), "__bool__") or hasattr(type(v), "__len__")):
            return bool(v)                              # a checker-side model that states its own truth value
        raise Undecidable(f"truth of {v!r} in {norm(node)}")

    def expr(self, e) -> Any:
        if isinstance(e, ast.Constant):
            return e.value
        if isinstance(e, ast.Name):
            if e.id in self.env:
                return self.env[e.id]
            if e.id in ("True", "False", "None"):
                return {"True": True, "False": False, "None": None}[e.id]
            if e.id == "pi":
                return sp.pi
            if e.id in ("int", "float", "bool", "str", "list", "dict", "tuple", "complex"):
                return Opaque("type:" + e.id)
            if e.id.endswith(("Warning", "Error")) and e.id[0].isupper() and hasattr(__builtins__ if not isinstance(__builtins__, dict) else object, e.id) or \
                    (isinstance(__builtins__, dict) and e.id in __builtins__ and e.id.endswith(("Warning", "Error"))):
                return Opaque("type:" + e.id)
            if self.resolver is not None:
                r = self.resolver(e.id)
                if r is not None:
                    self.env[e.id] = r
                    return r
            if self.opaque_unknown:
                return Opaque(e.id)
            raise Undecidable(f"unknown name {e.id}")
        if isinstance(e, ast.Attribute):
            txt = norm(e)
            if txt in self.env:
                return self.env[txt]
            if txt in ("np.pi", "math.pi", "numpy.pi"):
                return sp.pi
            base = self.expr(e.value)
            if isinstance(base, Rec):
                if e.attr in base.fields:
                    return base.fields[e.attr]
                if e.attr in (getattr(self, "inherited_props", None) or {}):
                    return self.inherited_props[e.attr][0](base)
                cv = getattr(base, "cls_val", None)
                if cv is not None and e.attr in cv.properties:
                    return self.call_funcval(FuncVal(cv.properties[e.attr], closure=None, bound_self=base, home=(cv.method_home or {}).get(e.attr, cv.home)), [], {})
                if cv is not None and e.attr in cv.methods:
                    return FuncVal(cv.methods[e.attr], closure=None, bound_self=base, home=(cv.method_home or {}).get(e.attr, cv.home))
                if e.attr == "__dict__":
                    return base.fields
                if getattr(base, "closed", False):
                    raise Raised("AttributeError", e)          # a record the rule declared complete: the object has no other attribute
                raise Undecidable(f"field {e.attr} of {base.cls}")
            if isinstance(base, Opaque):
                return Opaque(f"{base.text}.{e.attr}")
            if isinstance(base, (str, list, dict, tuple)) and callable(getattr(type(base), e.attr, None)):
                return Opaque(f"<bound method {type(base).__name__}.{e.attr}>")      # a method object used as a value (not called)
            if isinstance(base, (int, float, complex)) and not isinstance(base, bool) and e.attr in ("real", "imag"):
                return getattr(base, e.attr)
            if isinstance(base, sp.Basic) and e.attr in ("real", "imag"):
                return sp.re(base) if e.attr == "real" else sp.im(base)
            if isinstance(base, (sp.MatrixBase,)) and e.attr in ("T", "H", "shape", "rows", "cols"):
                return getattr(base, e.attr)
            if isinstance(base, (_np.finfo, _np.iinfo)) and e.attr in ("eps", "max", "min", "tiny", "bits"):
                return getattr(base, e.attr)
            if isinstance(base, (_np.ndarray, _np.generic)) and e.attr in ("shape", "T", "real", "imag", "size", "ndim", "dtype"):
                return getattr(base, e.attr)          # concrete numpy value (allocated by the folded code with literal extents)
            if isinstance(base, sp.Basic) and e.attr in ("is_zero", "is_real", "is_number"):
                return getattr(base, e.attr)
            if getattr(base, "_sa_model", False) and hasattr(base, e.attr) and (not callable(getattr(base, e.attr)) or getattr(getattr(base, e.attr), "_sa_model", False)):
                return getattr(base, e.attr)          # data attribute of a checker-side model object (possibly another model object)
            raise Undecidable(f"attribute {txt}")
        if isinstance(e, (ast.Set,)):
            return set(self.expr(x) for x in e.elts)              # a set display is a new mutable set
        if isinstance(e, ast.List):
            return [self.expr(x) for x in e.elts]
        if isinstance(e, ast.Tuple):
            return tuple(self.expr(x) for x in e.elts)
        if isinstance(e, ast.Dict):
            return {self.expr(k): self.expr(v) for k, v in zip(e.keys, e.values)}
        if isinstance(e, ast.UnaryOp):
            v = self.expr(e.operand)
            if isinstance(e.op, ast.Not):
                return not self.truth(v, e.operand)
            if isinstance(e.op, ast.USub):
                if isinstance(v, Rec):
                    m = self._rec_method(v, "__neg__")
                    if m is not None:
                        return self.call_funcval(m, [], {})
                    inh = getattr(self, "inherited_dunders", None) or {}
                    if "__neg__" in inh:
                        return inh["__neg__"](v)
                    raise Undecidable(f"-{v!r}")
                if isinstance(v, _np.generic):
                    import warnings as _w
                    with _w.catch_warnings():
                        _w.simplefilter("ignore")
                        return -v                     # numpy's own rule: an unsigned integer wraps around
                return -v
            if isinstance(e.op, ast.UAdd):
                return +v
            raise Undecidable(norm(e))
        if isinstance(e, ast.BinOp):
            return self.binop(e.op, self.expr(e.left), self.expr(e.right), e)
        if isinstance(e, ast.BoolOp):
            if isinstance(e.op, ast.And):
                v = True
                for x in e.values:
                    v = self.expr(x)
                    if not self.truth(v, x):
                        return v
                return v
            v = False
            for x in e.values:
                v = self.expr(x)
                if self.truth(v, x):
                    return v
            return v
        if isinstance(e, ast.Compare):
            left = self.expr(e.left)
            res = True
            for op, c in zip(e.ops, e.comparators):
                right = self.expr(c)
                res = res and self.compare(op, left, right, e)
                left = right
            return res
        if isinstance(e, ast.IfExp):
            return self.expr(e.body) if self.truth(self.expr(e.test), e.test) else self.expr(e.orelse)
        if isinstance(e, ast.Subscript):
            if norm(e) in self.env:
                return self.env[norm(e)]
            base = self.expr(e.value)
            if isinstance(e.slice, ast.Slice):
                lo = self.expr(e.slice.lower) if e.slice.lower else None
                hi = self.expr(e.slice.upper) if e.slice.upper else None
                st = self.expr(e.slice.step) if e.slice.step else None
                return base[lo:hi:st]
            if isinstance(e.slice, ast.Tuple) and any(isinstance(x, ast.Slice) for x in e.slice.elts):
                k = tuple(slice(*(self.expr(y) if y is not None else None for y in (x.lower, x.upper, x.step))) if isinstance(x, ast.Slice) else self.expr(x)
                          for x in e.slice.elts)
            else:
                k = self.expr(e.slice)
            if isinstance(base, Opaque):
                return Opaque(f"{base.text}[{k!r}]")
            try:
                return base[k]
            except (KeyError, IndexError, TypeError):
                raise Raised("KeyError", e)
        if isinstance(e, ast.JoinedStr):
            out = ""
            for v in e.values:
                if isinstance(v, ast.Constant):
                    out += v.value
                else:
                    val = self.expr(v.value)
                    if isinstance(val, (Opaque, Rec)):
                        raise Undecidable("f-string of opaque")
                    if v.conversion in (114, 115, 97):                      # !r / !s / !a
                        val = {114: repr, 115: str, 97: ascii}[v.conversion](val)
                    out += format(val, self.expr(v.format_spec) if v.format_spec else "")
            return out
        if isinstance(e, ast.Call):
            return self.call(e)
        if isinstance(e, ast.Lambda):
            fd = ast.FunctionDef(name="<lambda>", args=e.args, body=[ast.Return(value=e.body, lineno=e.lineno, col_offset=e.col_offset)], decorator_list=[], lineno=e.lineno, col_offset=e.col_offset)
            return FuncVal(fd, closure=self.env)
        if isinstance(e, (ast.ListComp, ast.SetComp, ast.DictComp, ast.GeneratorExp)):
            return self.comp(e)
        raise Undecidable(f"expression {type(e).__name__}: {norm(e)}")

    def comp(self, e):
        results = []
        saved = dict(self.env)

        def rec(i):
            if i == len(e.generators):
                if isinstance(e, ast.DictComp):
                    results.append((self.expr(e.key), self.expr(e.value)))
                else:
                    results.append(self.expr(e.elt))
                return
            g = e.generators[i]
            it = self.expr(g.iter)
            if isinstance(it, (set, frozenset)):
                it = _set_order(it)
            if isinstance(it, dict):
                it = list(it.keys())
            if self._rec_method(it, "__iter__") is not None:
                it = list(self.call_funcval(self._rec_method(it, "__iter__"), [], {}))
            if isinstance(it, Opaque):
                raise Undecidable(f"iteration over {it!r}")
            for x in list(it):
                self.assign(g.target, x)
                if all(self.truth(self.expr(c), c) for c in g.ifs):
                    rec(i + 1)
        rec(0)
        self.env = saved
        if isinstance(e, ast.DictComp):
            return dict(results)
        if isinstance(e, ast.SetComp):
            return set(results)
        return results

    _DUNDER = {ast.Add: ("__add__", "__radd__"), ast.Sub: ("__sub__", "__rsub__"), ast.Mult: ("__mul__", "__rmul__"), ast.Div: ("__truediv__", "__rtruediv__"),
               ast.MatMult: ("__matmul__", "__rmatmul__"), ast.Pow: ("__pow__", "__rpow__"), ast.BitAnd: ("__and__", "__rand__"), ast.BitOr: ("__or__", "__ror__")}

    def _rec_method(self, obj, name):
        cv = getattr(obj, "cls_val", None) if isinstance(obj, Rec) else None
        if cv is not None and name in cv.methods:
            return FuncVal(cv.methods[name], closure=None, bound_self=obj, home=(cv.method_home or {}).get(name, cv.home))
        return None

    _NP_FUNCS = frozenset("""array asarray zeros ones empty identity eye concatenate hstack vstack column_stack stack prod sum any all logical_not logical_or
        logical_and logical_xor where unique delete abs absolute real imag conj conjugate transpose dot matmul kron mod arange linspace argsort sort count_nonzero isclose
        allclose array_equal round around floor ceil sqrt exp log2 log max min amax amin argmax argmin cumsum diag trace einsum tensordot reshape ravel flip roll outer
        zeros_like ones_like copy nonzero isin append insert squeeze expand_dims tile repeat full triu tril sign bitwise_xor bitwise_and bitwise_or left_shift right_shift
        shape ndim size finfo iinfo arccos arcsin arctan arctan2 angle cos sin tan cosh sinh tanh power multiply add subtract divide floor_divide equal not_equal greater less ix_ meshgrid flatnonzero searchsorted diff cumprod mean pad log10 log base_repr""".split())
    _NP_METHODS = frozenset("""astype copy sum prod max min any all reshape transpose flatten ravel dot tolist conj conjugate nonzero argsort item squeeze round mean
        argmax argmin cumsum trace diagonal swapaxes take repeat""".split())
    _NP_DTYPES = {"complex64": _np.complex64, "complex128": _np.complex128, "complex": _np.complex128, "complex_": _np.complex128, "float64": _np.float64,
                  "float32": _np.float32, "float": _np.float64, "float_": _np.float64, "double": _np.float64, "int": _np.int64, "int64": _np.int64, "int32": _np.int32,
                  "int16": _np.int16, "int8": _np.int8, "uint8": _np.uint8, "bool": _np.bool_, "bool_": _np.bool_, "str": _np.str_, "object": object}

    def _np_concrete(self, v, depth=0):
        """-> (is the value made of concrete numbers / arrays only?, the value with dtype names replaced by numpy dtypes)"""
        if isinstance(v, Opaque):
            key = v.text.split(":")[-1].split(".")[-1]
            if not v.args and not v.kwargs and (v.text.startswith("type:") or v.text.startswith(("np.", "numpy."))) and key in self._NP_DTYPES:
                return True, self._NP_DTYPES[key]
            return False, v
        if isinstance(v, (Rec, FuncVal, ClassVal)) or getattr(v, "_sa_model", False):
            return False, v
        if isinstance(v, sp.Basic):
            if v.free_symbols or not v.is_number:
                return False, v
            return True, (int(v) if v.is_Integer else (float(v) if v.is_real else complex(v)))
        if isinstance(v, IntArray):
            return True, _np.array(list(v.v))
        if isinstance(v, (list, tuple)) and depth < 6:
            out = []
            for x in v:
                ok, y = self._np_concrete(x, depth + 1)
                if not ok:
                    return False, v
                out.append(y)
            return True, type(v)(out) if isinstance(v, tuple) else out
        if isinstance(v, dict):
            return False, v
        return True, v

    def _numpy_call(self, fn, args, kwargs, e):
        """numpy functions and array methods on concrete operands: evaluated by numpy itself (trusted primitives, like the Python builtins)"""
        parts = fn.split(".")
        target = None
        if parts[0] in ("np", "numpy") and len(parts) == 2 and not hasattr(_np, parts[1]) and getattr(self, "real_arrays", False) and \
                isinstance(self.env.get(parts[0], self.resolver(parts[0]) if self.resolver else None), Opaque):
            raise Raised("AttributeError", e)          # the installed numpy has no such function (np.product, np.in1d, ... were removed in NumPy 2)
        if parts[0] in ("np", "numpy") and len(parts) >= 2 and parts[1] in self._NP_FUNCS and isinstance(self.env.get(parts[0], self.resolver(parts[0]) if self.resolver else None), Opaque):
            target = getattr(_np, parts[1], None)
            for extra in parts[2:]:
                if extra not in ("reduce", "outer", "accumulate", "at"):
                    return _NO
                target = getattr(target, extra, None)
            recv = None
        elif parts[0] in ("np", "numpy") and len(parts) == 3 and parts[1] == "linalg" and parts[2] in ("norm", "det", "inv", "eigh", "eigvalsh", "eigvals", "multi_dot", "matrix_rank", "solve") and \
                isinstance(self.env.get(parts[0], self.resolver(parts[0]) if self.resolver else None), Opaque):
            target = getattr(_np.linalg, parts[2])
            recv = None
        elif isinstance(e.func, ast.Attribute) and e.func.attr in self._NP_METHODS:
            try:
                recv = self.expr(e.func.value)
            except (Undecidable, Raised):
                return _NO
            if not isinstance(recv, (_np.ndarray, _np.generic)):
                return _NO
            target = getattr(recv, e.func.attr)
        if target is None:
            return _NO
        cargs = []
        for a in args:
            ok, v = self._np_concrete(a)
            if not ok:
                return _NO
            cargs.append(v)
        ckw = {}
        for k, a in kwargs.items():
            ok, v = self._np_concrete(a)
            if not ok:
                return _NO
            ckw[k] = v
        import warnings as _w
        try:
            with _w.catch_warnings():
                _w.simplefilter("ignore")
                return target(*cargs, **ckw)
        except (ValueError, IndexError, TypeError, ZeroDivisionError) as ex:
            raise Raised(type(ex).__name__, e)

    def binop(self, op, a, b, node):
        names = self._DUNDER.get(type(op))
        if names:
            m = self._rec_method(a, names[0])
            if m is not None:
                return self.call_funcval(m, [b], {})
            m = self._rec_method(b, names[1])
            if m is not None:
                return self.call_funcval(m, [a], {})
            # operators a repository class inherits from a third-party base: a checker-side model supplied by the rule (name -> callable(record, other))
            inh = getattr(self, "inherited_dunders", None) or {}
            if isinstance(a, Rec) and names[0] in inh:
                return inh[names[0]](a, b)
            if isinstance(b, Rec) and names[1] in inh:
                return inh[names[1]](b, a)
        if isinstance(a, (_np.ndarray, _np.generic)) or isinstance(b, (_np.ndarray, _np.generic)):
            import operator as _op
            py = {ast.Add: _op.add, ast.Sub: _op.sub, ast.Mult: _op.mul, ast.Div: _op.truediv, ast.Mod: _op.mod, ast.Pow: _op.pow, ast.FloorDiv: _op.floordiv,
                  ast.BitOr: _op.or_, ast.BitAnd: _op.and_, ast.BitXor: _op.xor, ast.LShift: _op.lshift, ast.RShift: _op.rshift, ast.MatMult: _op.matmul}.get(type(op))
            oka, ca = self._np_concrete(a)
            okb, cb = self._np_concrete(b)
            if py is not None and oka and okb:
                import warnings as _w
                try:
                    with _w.catch_warnings():
                        _w.simplefilter("ignore")
                        return py(ca, cb)                          # array arithmetic: numpy's own element-wise / broadcasting rules
                except (ValueError, TypeError, IndexError) as ex:
                    raise Raised(type(ex).__name__, node)
        if isinstance(a, complex) and isinstance(b, sp.Basic):
            a = sp.nsimplify(a.real) + sp.I * sp.nsimplify(a.imag)
        if isinstance(b, complex) and isinstance(a, sp.Basic):
            b = sp.nsimplify(b.real) + sp.I * sp.nsimplify(b.imag)
        if isinstance(a, float) and isinstance(b, sp.Basic) and float(a).is_integer():
            a = int(a)
        if isinstance(b, float) and isinstance(a, sp.Basic) and float(b).is_integer():
            b = int(b)
        try:
            if isinstance(op, ast.Add):
                return a + b
            if isinstance(op, ast.Sub):
                return a - b
            if isinstance(op, ast.Mult):
                return a * b
            if isinstance(op, ast.Div):
                if isinstance(a, (int, float)) and isinstance(b, (int, float)):
                    return sp.Rational(a) / sp.Rational(b) if isinstance(a, int) and isinstance(b, int) else a / b
                return a / b
            if isinstance(op, ast.Mod):
                return a % b
            if isinstance(op, ast.Pow):
                return a ** b
            if isinstance(op, ast.FloorDiv):
                return a // b
            if isinstance(op, ast.BitOr):
                return a | b
            if isinstance(op, ast.BitAnd):
                return a & b
            if isinstance(op, ast.BitXor):
                return a ^ b
            if isinstance(op, (ast.LShift, ast.RShift)) and all(isinstance(x, int) and not isinstance(x, bool) for x in (a, b)) and 0 <= b <= 4096:
                return a << b if isinstance(op, ast.LShift) else a >> b
        except TypeError:
            pass
        raise Undecidable(f"binop {norm(node)} on {a!r}, {b!r}")

    def compare(self, op, a, b, node) -> bool:
        if isinstance(op, (ast.In, ast.NotIn)):
            if isinstance(b, Opaque):
                raise Undecidable(f"membership in opaque {b.text}")
            r = a in b
            return r if isinstance(op, ast.In) else not r
        if isinstance(op, (ast.Is, ast.IsNot)) and isinstance(a, Opaque) and isinstance(b, Opaque) and a.text.startswith("type:") and b.text.startswith("type:"):
            r = a.text == b.text                     # `type(x) is int`: builtin types are singletons
            return r if isinstance(op, ast.Is) else not r
        if isinstance(op, (ast.Is, ast.IsNot)):
            r = (a is b) or (a is None and b is None)
            if not (a is None or b is None or isinstance(a, bool) or isinstance(b, bool)):
                raise Undecidable(f"identity comparison {norm(node)}")
            r = a is b
            return r if isinstance(op, ast.Is) else not r
        if isinstance(op, (ast.Eq, ast.NotEq)) and isinstance(a, Rec) and (a.cls, "__eq__") in self.ctors:
            r = bool(self.ctors[(a.cls, "__eq__")](a, [b], {}))          # the repository class defines its own equality: fold that
            return r if isinstance(op, ast.Eq) else not r
        if isinstance(op, (ast.Eq, ast.NotEq)):
            if isinstance(a, sp.Basic) or isinstance(b, sp.Basic):
                if isinstance(a, str) or isinstance(b, str):
                    r = False          # a symbolic number is never equal to a string constant
                else:
                    d = sp.simplify(sp.sympify(a) - sp.sympify(b))
                    if d == 0:
                        r = True
                    elif d.is_number or not d.free_symbols:
                        r = False
                    elif getattr(self, "generic_symbols", False):
                        r = False          # symbols stand for generic values: an expression that is not identically zero is not zero
                    else:
                        raise Undecidable(f"symbolic equality {norm(node)}")
            else:
                r = a == b
            return r if isinstance(op, ast.Eq) else not r
        if isinstance(a, sp.Basic) or isinstance(b, sp.Basic):
            if isinstance(a, (Opaque, Rec)) or isinstance(b, (Opaque, Rec)):
                raise Undecidable(f"ordering comparison {norm(node)} on {a!r}, {b!r}")
            rel = {ast.Lt: sp.Lt, ast.LtE: sp.Le, ast.Gt: sp.Gt, ast.GtE: sp.Ge}[type(op)](sp.sympify(a), sp.sympify(b))
            if rel is sp.true:
                return True
            if rel is sp.false:
                return False
            raise Undecidable(f"symbolic comparison {norm(node)}")
        if isinstance(a, (Opaque, Rec)) or isinstance(b, (Opaque, Rec)):
            raise Undecidable(f"ordering comparison {norm(node)} with an opaque value")
        return {ast.Lt: lambda: a < b, ast.LtE: lambda: a <= b, ast.Gt: lambda: a > b, ast.GtE: lambda: a >= b}[type(op)]()

    def call_funcval(self, fv: "FuncVal", args, kwargs):
        base_env = dict(fv.closure) if fv.closure is not None else ({} if fv.home else dict(self.env))
        res = self.resolver
        if fv.home and self.resolver_factory is not None:
            res = self.resolver_factory(fv.home)
            base_env.setdefault("np.pi", sp.pi)
        sub = Folder(env=base_env, ctors=None, opaque_unknown=self.opaque_unknown, isinstance_hook=self.isinstance_hook, resolver=res,
                     resolver_factory=self.resolver_factory)
        sub.ctors = self.ctors
        sub.generic_symbols = getattr(self, "generic_symbols", False)
        sub.real_arrays = getattr(self, "real_arrays", False)
        sub.inherited_dunders = getattr(self, "inherited_dunders", None)
        sub.inherited_props = getattr(self, "inherited_props", None)
        fa = fv.node.args
        names = [a.arg for a in fa.posonlyargs + fa.args]
        args = list(args)
        if fv.bound_self is not None:
            args = [fv.bound_self] + args
        bind = dict(zip(names, args))
        extra = args[len(names):]
        if fa.vararg is not None:
            bind[fa.vararg.arg] = tuple(extra)
        elif extra:
            raise Undecidable(f"too many arguments for {fv.node.name}")
        kw_extra = {}
        kwonly = [a.arg for a in fa.kwonlyargs]
        for k, v in kwargs.items():
            if k in names or k in kwonly:
                bind[k] = v
            else:
                kw_extra[k] = v
        if fa.kwarg is not None:
            bind[fa.kwarg.arg] = kw_extra
        elif kw_extra:
            raise Undecidable(f"unexpected keyword(s) {sorted(kw_extra)} for {fv.node.name}")
        for a, dflt in zip(names[len(names) - len(fa.defaults):], fa.defaults):
            if a not in bind:
                bind[a] = sub.expr(dflt)
        for a, dflt in zip(fa.kwonlyargs, fa.kw_defaults):
            if a.arg not in bind and dflt is not None:
                bind[a.arg] = sub.expr(dflt)
        missing = [a for a in names if a not in bind]
        if missing:
            raise Undecidable(f"missing argument(s) {missing} for {fv.node.name}")
        return sub.run_function(fv.node, bind)

    def instantiate(self, cv: "ClassVal", args, kwargs):
        obj = Rec(cv.name, {})
        obj.cls_val = cv
        init = cv.methods.get("__init__")
        if init is not None:
            self.call_funcval(FuncVal(init, closure=None, bound_self=obj, home=(cv.method_home or {}).get("__init__", cv.home)), args, kwargs)
        return obj

    def call(self, e: ast.Call):
        fn = norm(e.func)
        if fn == "isinstance" and len(e.args) == 2:
            v0 = self.expr(e.args[0])
            if self.isinstance_hook is not None:
                r = self.isinstance_hook(v0, norm(e.args[1]))
                if r is not None:
                    return r
            tnames = [norm(x) for x in (e.args[1].elts if isinstance(e.args[1], ast.Tuple) else [e.args[1]])]
            known = {"str": str, "int": int, "float": float, "list": list, "dict": dict, "tuple": tuple, "bool": bool,
                     "complex": complex, "set": (set, frozenset)}
            if not isinstance(v0, (Opaque, Rec, sp.Basic)):
                if all(t in known for t in tnames):
                    return isinstance(v0, tuple(known[t] if not isinstance(known[t], tuple) else known[t][0] for t in tnames)) or \
                        any(isinstance(known[t], tuple) and isinstance(v0, known[t]) for t in tnames)
                # numpy / sympy types: a native python constant is none of them, except int/float families
                if all(t in known or t in ("ndarray", "np.ndarray", "integer", "np.integer", "floating", "np.floating", "Symbol", "np.matrix") for t in tnames):
                    return any(t in known and isinstance(v0, known[t] if not isinstance(known[t], tuple) else known[t]) for t in tnames)
            if isinstance(v0, Rec) and all(t in known for t in tnames):
                return False
            # the type is itself a value (a variable / table entry holding a builtin type)
            try:
                tv = self.expr(e.args[1])
            except Undecidable:
                tv = None
            tvs = list(tv) if isinstance(tv, (tuple, list)) else [tv]
            if tv is not None and all(isinstance(t, Opaque) and t.text.startswith("type:") and t.text[5:] in known for t in tvs) and not isinstance(v0, (Opaque, sp.Basic)):
                if isinstance(v0, Rec):
                    return False
                return any(isinstance(v0, known[t.text[5:]]) and not (t.text[5:] in ("int", "float") and isinstance(v0, bool) and t.text[5:] == "float") for t in tvs)
            raise Undecidable(f"isinstance({v0!r}, {norm(e.args[1])})")
        args = []
        for a in e.args:
            if isinstance(a, ast.Starred):
                args.extend(self.expr(a.value))
            else:
                args.append(self.expr(a))
        kwargs = {}
        for k in e.keywords:
            if k.arg is None:
                kwargs.update(self.expr(k.value))
            else:
                kwargs[k.arg] = self.expr(k.value)
        if fn in self.ctors:
            return self.ctors[fn](args, kwargs)
        if fn in ("list", "tuple", "enumerate", "sorted", "reversed", "len", "iter", "zip", "set", "sum", "max", "min", "any", "all"):
            # an instance of a folded repository class that defines __iter__ / __len__ goes through those
            def _conv(a):
                if fn == "len" and self._rec_method(a, "__len__") is not None:
                    return [None] * int(self.call_funcval(self._rec_method(a, "__len__"), [], {}))
                if self._rec_method(a, "__iter__") is not None:
                    return list(self.call_funcval(self._rec_method(a, "__iter__"), [], {}))
                return a
            args = [_conv(a) for a in args]
        if fn == "map" and len(args) >= 2 and not kwargs:
            f0 = args[0]
            seqs = [list(a) if not isinstance(a, Opaque) else None for a in args[1:]]
            if any(q is None for q in seqs):
                raise Undecidable(f"map over {args[1:]!r}")
            if isinstance(f0, Opaque) and f0.text in ("type:str", "type:int", "type:float", "type:bool", "type:tuple", "type:list"):
                py = {"str": str, "int": int, "float": float, "bool": bool, "tuple": tuple, "list": list}[f0.text[5:]]
                return [py(*xs) for xs in zip(*seqs)]
            if isinstance(f0, FuncVal):
                return [self.call_funcval(f0, list(xs), {}) for xs in zip(*seqs)]
            raise Undecidable(f"map with {f0!r}")
        if fn in ("Counter", "collections.Counter"):
            import collections
            return collections.Counter(*args, **kwargs)
        if fn == "isinstance" and len(args) == 2:
            if self.isinstance_hook is not None:
                r = self.isinstance_hook(args[0], norm(e.args[1]))
                if r is not None:
                    return r
            raise Undecidable(f"isinstance({args[0]!r}, {norm(e.args[1])})")
        if fn in ("any", "all") and len(args) == 1 and not kwargs:
            vals = list(args[0])
            tv = [self.truth(v, e) for v in vals]
            return any(tv) if fn == "any" else all(tv)
        if fn == "round" and not kwargs and all(isinstance(a, (int, float)) for a in args):
            return round(*args)
        if fn in ("math.ceil", "math.floor", "ceil", "floor", "np.ceil", "np.floor") and len(args) == 1 and \
                (isinstance(args[0], (int, float)) or (isinstance(args[0], sp.Basic) and args[0].is_number)):
            import math as _m
            return int(_m.ceil(args[0])) if fn.endswith("ceil") else int(_m.floor(args[0]))
        if fn in ("OrderedDict", "collections.OrderedDict") and len(args) <= 1 and not kwargs:
            return dict(*args)
        if fn in ("math.log2", "np.log2", "math.log", "math.log10") and len(args) == 1 and isinstance(args[0], (int, float)) and not isinstance(args[0], bool) and args[0] > 0:
            import math as _m
            return getattr(_m, fn.split(".")[1])(args[0])
        if not getattr(self, "real_arrays", False) and fn in ("np.ones", "np.zeros", "numpy.ones", "numpy.zeros") and len(args) == 1 and isinstance(args[0], int) and not isinstance(args[0], bool) and \
                set(kwargs) <= {"dtype"}:
            if kwargs.get("dtype") == Opaque("type:int"):
                return IntArray([1 if fn.endswith("ones") else 0] * args[0])
            return [1 if fn.endswith("ones") else 0] * args[0]         # a one-dimensional array of a literal length, as a list
        if fn in ("np.ones", "np.zeros", "numpy.ones", "numpy.zeros") and len(args) == 1 and isinstance(args[0], tuple) and len(args[0]) >= 2 and set(kwargs) <= {"dtype"} and \
                all(isinstance(d, int) and not isinstance(d, bool) and 0 <= d <= 4096 for d in args[0]):
            # a matrix of literal extents: a concrete numpy array of the requested element type, so that numpy's own casting rules apply to what is stored in it
            dt = kwargs.get("dtype")
            names = {"complex64": _np.complex64, "complex128": _np.complex128, "complex": _np.complex128, "complex_": _np.complex128, "cdouble": _np.complex128,
                     "float64": _np.float64, "float32": _np.float32, "float": _np.float64, "double": _np.float64, "float_": _np.float64,
                     "int": _np.int64, "int64": _np.int64, "int32": _np.int32, "int8": _np.int8, "bool": _np.bool_}
            if dt is None:
                npdt = _np.float64
            elif isinstance(dt, Opaque) and dt.text.split(":")[-1].split(".")[-1] in names:
                npdt = names[dt.text.split(":")[-1].split(".")[-1]]
            else:
                raise Undecidable(f"{fn} with dtype {dt!r}")
            return (_np.ones if fn.endswith("ones") else _np.zeros)(args[0], dtype=npdt)
        if not getattr(self, "real_arrays", False) and fn in ("np.linspace", "numpy.linspace") and len(args) == 3 and all(isinstance(a, int) and not isinstance(a, bool) for a in args) and \
                set(kwargs) == {"dtype"} and kwargs["dtype"] == Opaque("type:int") and args[2] >= 1:
            lo, hi, cnt = args
            if cnt == 1:
                return IntArray([lo])
            if (hi - lo) % (cnt - 1) != 0:
                raise Undecidable("np.linspace with a non-integer step")
            return IntArray([lo + i * (hi - lo) // (cnt - 1) for i in range(cnt)])
        if not getattr(self, "real_arrays", False) and fn in ("np.arange", "numpy.arange") and 1 <= len(args) <= 3 and all(isinstance(a, int) and not isinstance(a, bool) for a in args) and set(kwargs) <= {"dtype"}:
            return IntArray(range(*args))
        if fn in ("np.hstack", "np.vstack", "np.column_stack", "numpy.hstack", "numpy.vstack", "numpy.column_stack") and len(args) == 1 and not kwargs and \
                isinstance(args[0], (list, tuple)) and args[0] and all(isinstance(x, _np.ndarray) for x in args[0]):
            return getattr(_np, fn.split(".")[1])(list(args[0]))           # concrete arrays supplied by the checker: the numpy definition itself
        if not getattr(self, "real_arrays", False) and fn in ("np.concatenate", "numpy.concatenate") and len(args) == 1 and isinstance(args[0], (list, tuple)) and not kwargs:
            if all(isinstance(x, IntArray) for x in args[0]):
                return IntArray([y for x in args[0] for y in x.v])
            if all(isinstance(x, list) for x in args[0]):
                return [y for x in args[0] for y in x]
        if fn in ("copy.deepcopy", "deepcopy", "copy.copy") and len(args) == 1 and not kwargs:
            import copy as _copy
            try:
                return _copy.deepcopy(args[0]) if fn != "copy.copy" else _copy.copy(args[0])
            except Exception as ex:
                if isinstance(ex, TypeError) and "not supported between instances" in str(ex):
                    raise Raised("TypeError", e)          # Python itself refuses to order these values
                raise Undecidable(f"{fn}: {ex}")
        if fn in ("comb", "scipy.special.comb", "math.comb", "special.comb") and len(args) == 2 and all(isinstance(a, int) and not isinstance(a, bool) for a in args) and \
                set(kwargs) <= {"exact"}:
            import math as _m
            v = _m.comb(args[0], args[1]) if args[0] >= 0 and args[1] >= 0 else 0
            return v if kwargs.get("exact") or fn == "math.comb" else float(v)
        if fn in ("itertools.combinations", "itertools.product", "itertools.permutations", "combinations", "product", "permutations",
                  "itertools.combinations_with_replacement", "combinations_with_replacement") and \
                all(isinstance(a, (list, tuple, range, str, frozenset, set, IntArray)) or isinstance(a, int) for a in args) and set(kwargs) <= {"repeat"}:
            import itertools as _it
            f = getattr(_it, fn.split(".")[-1])
            seqs = [_set_order(a) if isinstance(a, (set, frozenset)) else a for a in args]
            try:
                return [tuple(x) for x in f(*seqs, **kwargs)]
            except TypeError as ex:
                if isinstance(ex, TypeError) and "not supported between instances" in str(ex):
                    raise Raised("TypeError", e)          # Python itself refuses to order these values
                raise Undecidable(f"{fn}: {ex}")
        if not getattr(self, "real_arrays", False) and fn in ("np.sum", "numpy.sum") and len(args) == 1 and isinstance(args[0], (list, tuple, IntArray)) and not kwargs:
            return sum(list(args[0]))
        if not getattr(self, "real_arrays", False) and fn in ("np.empty", "numpy.empty") and len(args) == 1 and isinstance(args[0], int) and not isinstance(args[0], bool) and set(kwargs) <= {"dtype"}:
            return [None] * args[0]                                      # uninitialised one-dimensional array
        if fn == "format" and len(args) == 2 and isinstance(args[0], (int, float)) and isinstance(args[1], str) and not kwargs:
            try:
                return format(args[0], args[1])
            except ValueError:
                raise Raised("ValueError", e)
        if fn == "int" and len(args) == 2 and isinstance(args[0], str) and isinstance(args[1], int) and not kwargs:
            try:
                return int(args[0], args[1])
            except ValueError:
                raise Raised("ValueError", e)
        if fn in ("np.prod", "numpy.prod", "math.prod") and len(args) == 1 and isinstance(args[0], (list, tuple, IntArray)) and not kwargs:
            out = 1
            for x in args[0]:
                out = out * x
            return out
        if fn == "round" and len(args) in (1, 2) and all(isinstance(a, (int, float)) and not isinstance(a, bool) for a in args):
            return round(*args)
        if fn.startswith("math.") and fn.split(".")[1] in ("copysign", "fabs", "isclose", "pow", "atan2", "degrees", "radians", "gcd", "factorial", "perm", "isfinite", "isnan", "trunc", "hypot") \
                and args and all(isinstance(a, (int, float)) and not isinstance(a, bool) for a in args) and all(isinstance(v, (int, float)) for v in kwargs.values()):
            import math as _m
            try:
                return getattr(_m, fn.split(".")[1])(*args, **kwargs)
            except (ValueError, OverflowError):
                raise Raised("ValueError", e)
        if fn in ("math.remainder", "math.fmod") and len(args) == 2 and all(isinstance(a, (int, float)) or (isinstance(a, sp.Basic) and a.is_number and a.is_real) for a in args):
            import math as _m
            return getattr(_m, fn.split(".")[1])(*[float(a) for a in args])
        if fn == "next" and not kwargs and args and isinstance(args[0], (list, tuple)):
            if args[0]:
                return args[0][0]                 # comprehensions are folded eagerly: next(<generator>) is the first element
            if len(args) == 2:
                return args[1]
            raise Raised("StopIteration", e)
        if fn in ("isclose",) and len(args) == 2 and all(isinstance(a, (int, float)) and not isinstance(a, bool) for a in args) and all(isinstance(v, (int, float)) for v in kwargs.values()):
            import math as _m
            return _m.isclose(*args, **kwargs)
        if fn in ("next", "iter") and not kwargs:
            try:
                return {"next": next, "iter": iter}[fn](*args)
            except Exception as ex:
                if isinstance(ex, TypeError) and "not supported between instances" in str(ex):
                    raise Raised("TypeError", e)          # Python itself refuses to order these values
                raise Undecidable(f"{fn}: {ex}")
        if fn in ("max", "min") and len(args) == 1 and set(kwargs) <= {"default"} and isinstance(args[0], (list, tuple, set, frozenset, IntArray, range)):
            items = list(args[0])
            if not items:
                if "default" in kwargs:
                    return kwargs["default"]
                raise Raised("ValueError", e)                 # max() / min() of an empty sequence
            try:
                return (max if fn == "max" else min)(items)
            except TypeError as ex:
                if isinstance(ex, TypeError) and "not supported between instances" in str(ex):
                    raise Raised("TypeError", e)          # Python itself refuses to order these values
                raise Undecidable(f"{fn}: {ex}")
        if fn in ("itemgetter", "operator.itemgetter") and args and not kwargs:
            ok_, idxs = self._np_concrete(list(args))
            if ok_:
                import operator as _op
                return _PyCallable(_op.itemgetter(*[int(i) for i in idxs]))
        _k = kwargs.get("key")
        _pykey = {"type:int": int, "type:float": float, "type:str": str, "type:tuple": tuple}.get(_k.text) if isinstance(_k, Opaque) else None
        if isinstance(_k, _PyCallable):
            _pykey = _k
        if fn in ("sorted", "max", "min") and len(args) == 1 and set(kwargs) <= {"key", "reverse"} and (isinstance(_k, FuncVal) or _pykey is not None):
            items = list(args[0].keys()) if isinstance(args[0], dict) else list(args[0])
            try:
                keyed = [((self.call_funcval(_k, [x], {}) if _pykey is None else _pykey(x)), x) for x in items]
            except (TypeError, ValueError) as ex:
                raise Raised(type(ex).__name__, e)
            try:
                if fn == "sorted":
                    order = sorted(range(len(items)), key=lambda i: keyed[i][0], reverse=bool(kwargs.get("reverse", False)))
                    return [items[i] for i in order]
                pick = (max if fn == "max" else min)(range(len(items)), key=lambda i: keyed[i][0])
                return items[pick]
            except (TypeError, ValueError) as ex:
                raise Undecidable(f"{fn} with key: {ex}")
        if fn in ("itertools.chain.from_iterable", "chain.from_iterable") and len(args) == 1 and not kwargs and isinstance(args[0], (list, tuple)) and \
                all(isinstance(x, (list, tuple)) for x in args[0]):
            return [y for x in args[0] for y in x]
        if fn in ("itertools.chain", "chain") and not kwargs and all(isinstance(x, (list, tuple, range)) for x in args):
            return [y for x in args for y in x]
        if fn == "divmod" and len(args) == 2 and not kwargs and all(isinstance(a, (int, float)) and not isinstance(a, bool) for a in args):
            if args[1] == 0:
                raise Raised("ZeroDivisionError", e)
            return divmod(*args)
        if fn == "super":
            return Opaque("super()")          # calls through super() reach base-class code that is not folded: they return opaque values and change nothing
        if fn == "bool" and len(args) <= 1 and not kwargs:
            return self.truth(args[0], e) if args else False
        if fn == "complex" and 1 <= len(args) <= 2 and not kwargs and all(isinstance(a, (int, float, complex, _np.generic)) and not isinstance(a, bool) for a in args):
            return complex(*args)
        if fn in ("dict", "list", "set", "tuple", "sorted", "len", "str", "frozenset", "reversed", "range", "abs", "int", "float", "max", "min", "sum", "zip", "enumerate") and not kwargs:
            if fn in ("int", "float") and len(args) == 1 and isinstance(args[0], str):
                try:
                    return {"int": int, "float": float}[fn](args[0])
                except ValueError:
                    raise Raised("ValueError", e)
            try:
                f = {"dict": dict, "list": list, "set": set, "tuple": tuple, "sorted": _natural_sorted,
                     "len": len, "str": str, "frozenset": frozenset, "reversed": lambda x: list(reversed(x)),
                     "range": range, "abs": abs, "int": int, "float": float, "max": max, "min": min, "sum": sum,
                     "zip": lambda *a: list(zip(*a)), "enumerate": lambda x: list(enumerate(x))}[fn]
                return f(*args)
            except Exception as ex:
                if isinstance(ex, TypeError) and "not supported between instances" in str(ex):
                    raise Raised("TypeError", e)          # Python itself refuses to order these values
                raise Undecidable(f"{fn}: {ex}")
        if fn in ("re.split", "re.findall", "re.sub", "re.match", "re.search") and not kwargs and all(isinstance(a, str) for a in args):
            try:
                r = getattr(_re, fn[3:])(*args)
            except Exception as ex:
                if isinstance(ex, TypeError) and "not supported between instances" in str(ex):
                    raise Raised("TypeError", e)          # Python itself refuses to order these values
                raise Undecidable(f"{fn}: {ex}")
            if fn in ("re.match", "re.search"):
                return None if r is None else Opaque("re.Match")
            return r
        if fn in ("np.real", "numpy.real") and len(args) == 1:
            v = args[0]
            if isinstance(v, (int, float)):
                return v
            if isinstance(v, complex):
                return v.real
            if isinstance(v, sp.Basic):
                return v if v.is_real else sp.re(v)
        if getattr(self, "real_arrays", False) and fn.split(".")[0] in ("np", "numpy", "math", "cmath") and fn.split(".")[-1] in ("exp", "cos", "sin", "sqrt") and len(args) == 1 and \
                isinstance(args[0], (int, float, complex, _np.generic, _np.ndarray)) and not isinstance(args[0], bool):
            try:
                return getattr(_np, fn.split(".")[-1])(args[0])          # numeric mode: concrete numbers stay numbers
            except (ValueError, TypeError) as ex:
                raise Raised(type(ex).__name__, e)
        if fn in ("np.exp", "numpy.exp", "math.exp", "exp") and len(args) == 1:
            return sp.exp(sp.sympify(args[0]))
        if fn in ("np.cos", "np.sin", "math.cos", "math.sin", "np.sqrt", "math.sqrt", "sqrt", "cos", "sin") and len(args) == 1 and \
                isinstance(args[0], (int, float, complex, sp.Basic)) and not isinstance(args[0], bool):
            if isinstance(args[0], (int, float)) and fn.split(".")[-1] == "sqrt" and args[0] >= 0:
                import math as _m
                return _m.sqrt(args[0])
            return {"cos": sp.cos, "sin": sp.sin, "sqrt": sp.sqrt}[fn.split(".")[-1]](sp.sympify(args[0]))
        if fn == "abs" and len(args) == 1 and isinstance(args[0], sp.Basic):
            return sp.Abs(args[0])
        if fn == "eval" and len(args) == 1 and isinstance(args[0], str):
            try:
                return ast.literal_eval(args[0])
            except Exception:
                raise Undecidable(f"eval({args[0]!r})")
        if fn == "setattr" and len(args) == 3 and isinstance(args[1], str):
            if isinstance(args[0], Rec):
                args[0].fields[args[1]] = args[2]
                return None
            if getattr(args[0], "_sa_model", False):
                setattr(args[0], args[1], args[2])
                return None
            raise Undecidable(f"setattr on {args[0]!r}")
        if fn == "getattr" and len(args) in (2, 3) and isinstance(args[1], str) and isinstance(args[0], Rec) and (args[1] in args[0].fields or len(args) == 3):
            return args[0].fields.get(args[1], args[2] if len(args) == 3 else None)
        if fn == "hasattr" and len(args) == 2 and isinstance(args[1], str):
            if isinstance(args[0], Rec):
                return args[1] in args[0].fields or args[1] in ("__iter__",) and isinstance(args[0].fields.get("_iter"), list)
            if isinstance(args[0], (list, tuple, str, dict, set, frozenset)):
                return hasattr(args[0], args[1])
            if isinstance(args[0], (int, float)) and not isinstance(args[0], bool):
                return hasattr(args[0], args[1])
            raise Undecidable(f"hasattr({args[0]!r}, {args[1]!r})")
        if fn == "type" and len(args) == 1 and getattr(args[0], "_sa_type_text", None):
            return Opaque(args[0]._sa_type_text)                  # a model of a library scalar/object declares what type() of it is
        if fn == "type" and len(args) == 1 and not isinstance(args[0], (Opaque, Rec, sp.Basic)):
            return Opaque("type:" + type(args[0]).__name__)
        if isinstance(e.func, ast.Attribute):
            obj = self.expr(e.func.value)
            m = e.func.attr
            if getattr(obj, "_sa_model", False) and hasattr(obj, m):
                return getattr(obj, m)(*args, **kwargs)        # checker-side model object (e.g. a bit array)
            if isinstance(obj, (sp.Basic, sp.MatrixBase)) and m in ("rewrite", "evalf", "simplify", "expand", "conjugate", "transpose", "adjoint", "subs", "doit", "applyfunc"):
                try:
                    return getattr(obj, m)(*args, **kwargs)    # sympy values are pure: their own algebra is part of the trusted base
                except Exception as ex:
                    raise Undecidable(f"sympy {m}: {ex}")
            if isinstance(obj, Rec) and m == "__getattribute__" and len(args) == 1 and args[0] in obj.fields:
                return obj.fields[args[0]]
            if isinstance(obj, str) and m in ("split", "join", "startswith", "endswith", "replace", "rstrip", "lstrip", "count", "find", "isdigit", "format", "rjust", "ljust", "zfill", "center", "index", "rfind", "partition") and not kwargs:
                try:
                    return getattr(obj, m)(*args)
                except Exception as ex:
                    raise Undecidable(f"str.{m}: {ex}")
            if isinstance(obj, str) and m in ("lower", "upper", "strip", "capitalize", "title") and not args:
                return getattr(obj, m)()
            if isinstance(obj, dict) and m in ("keys", "values", "items", "get", "copy") and not kwargs:
                r = getattr(obj, m)(*args)
                return list(r) if m in ("values", "items") else r       # keys() stays a set-like view (comparisons, set algebra)
            if isinstance(obj, list) and m == "append" and len(args) == 1:
                obj.append(args[0])
                return None
            if isinstance(obj, list) and m == "extend" and len(args) == 1:
                obj.extend(args[0])
                return None
            if isinstance(obj, (int, float, complex)) and not isinstance(obj, bool) and m in ("is_integer", "conjugate", "bit_length") and not kwargs:
                return getattr(obj, m)(*args)
            if isinstance(obj, ClassVal) and m in obj.methods:
                node = obj.methods[m]
                decos = {ast.unparse(d) for d in getattr(node, "decorator_list", [])}
                home = (obj.method_home or {}).get(m, obj.home)
                if "staticmethod" in decos:
                    return self.call_funcval(FuncVal(node, closure=None, home=home), args, kwargs)
                if "classmethod" in decos:
                    return self.call_funcval(FuncVal(node, closure=None, home=home), [obj] + list(args), kwargs)
                return self.call_funcval(FuncVal(node, closure=None, home=home), args, kwargs)      # Class.method(instance, ...)
            if isinstance(obj, (Opaque, _np.ndarray, _np.generic)):
                r = self._numpy_call(fn, args, kwargs, e)
                if r is not _NO:
                    return r
            if isinstance(obj, Opaque):
                return Opaque(f"{obj.text}.{m}", tuple(args), tuple(sorted(kwargs.items(), key=lambda kv: kv[0])))
            if isinstance(obj, Rec) and (obj.cls, m) in self.ctors:
                return self.ctors[(obj.cls, m)](obj, args, kwargs)
            cvo = getattr(obj, "cls_val", None) if isinstance(obj, Rec) else None
            if cvo is not None and m in cvo.methods:
                return self.call_funcval(FuncVal(cvo.methods[m], closure=None, bound_self=obj, home=(cvo.method_home or {}).get(m, cvo.home)), args, kwargs)
            if isinstance(obj, (dict,)) and m in ("update", "pop", "setdefault", "clear"):
                return getattr(obj, m)(*args, **kwargs)
            if isinstance(obj, (set, frozenset)) and m in ("union", "intersection", "difference", "symmetric_difference", "issubset", "issuperset", "isdisjoint", "copy") and not kwargs:
                return getattr(obj, m)(*args)                 # new set of the receiver's own kind (or a boolean), as in Python
            if isinstance(obj, set) and m in ("add", "update", "discard", "remove", "pop") and not kwargs:
                try:
                    return getattr(obj, m)(*args)          # a mutable set handed in by the checker
                except KeyError:
                    raise Raised("KeyError", e)
            if isinstance(obj, frozenset) and m in ("add", "update", "discard", "remove") and not kwargs and isinstance(e.func.value, (ast.Name, ast.Attribute, ast.Subscript)):
                # sets are folded as immutable values: an in-place update rebinds the variable / field / slot it was read from
                # (aliases of the same set through another name do not see the update - the folded functions do not rely on that)
                if m == "remove" and args[0] not in obj:
                    raise Raised("KeyError", e)
                new = obj | frozenset(args[0]) if m == "update" else (obj | {args[0]} if m == "add" else obj - {args[0]})
                self.assign(e.func.value, new)
                return None
            if isinstance(obj, list) and m in ("remove", "pop", "insert", "index", "sort", "reverse", "copy", "count", "clear") and set(kwargs) <= {"key", "reverse"}:
                if m == "sort" and isinstance(kwargs.get("key"), FuncVal):
                    keyed = [(self.call_funcval(kwargs["key"], [x], {}), x) for x in obj]
                    order = sorted(range(len(obj)), key=lambda i: keyed[i][0], reverse=bool(kwargs.get("reverse", False)))
                    obj[:] = [obj[i] for i in order]
                    return None
                try:
                    return getattr(obj, m)(*args, **kwargs)
                except (ValueError, IndexError) as ex:
                    raise Raised(type(ex).__name__, e)
                except TypeError as ex:
                    raise Undecidable(f"list.{m}: {ex}")
        r = self._numpy_call(fn, args, kwargs, e)
        if r is not _NO:
            return r
        fv = None
        try:
            fv = self.expr(e.func)
        except Undecidable:
            fv = None
        if isinstance(fv, ClassVal):
            return self.instantiate(fv, args, kwargs)
        if isinstance(fv, FuncVal):
            return self.call_funcval(fv, args, kwargs)
        if isinstance(fv, Opaque):
            return Opaque(fv.text, tuple(args), tuple(sorted(kwargs.items(), key=lambda kv: kv[0])))
        if getattr(fv, "_sa_model", False) and callable(fv):
            return fv(*args, **kwargs)                   # a callable stand-in supplied by the checker (e.g. a class recorded on instantiation)
        raise Undecidable(f"call {fn}")
