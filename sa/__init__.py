"""Static-analysis checkers for the Tangelo properties C01-C20.

Nothing in this package imports or executes ``tangelo``; every decision is taken
from the syntax trees of /repo's current working tree (see DESIGN.md).
"""
